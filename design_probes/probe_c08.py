import sys,itertools,time; sys.path.insert(0,'/repo')
from collections import Counter
from tel2puml.otel_to_pv.sequence_otel import sequence_otel_job_id_streams
from tel2puml.otel_to_pv.otel_to_pv_types import OTelEvent, OTelEventTypeMap
import os; os.environ['TQDM_DISABLE']='1'
# shapes as parent arrays for <=4 nodes (node0 root)
SHAPES=[[ -1 ],[-1,0],[-1,0,0],[-1,0,1],[-1,0,0,0],[-1,0,0,1],[-1,0,1,1],[-1,0,1,2]]
def intervals(grid): return [(s,e) for s in range(grid) for e in range(s+1,grid+1)]
def ref_sequence(spans, async_flag, amap, rmap):
    # spans: dict id -> dict(type,s,e,parent,children)
    types={i:sp['type'] for i,sp in spans.items()}
    # rename
    newtypes=dict(types)
    for i,sp in spans.items():
        if types[i] in rmap:
            mapped,childtypes=rmap[types[i]]
            if any(types[c] in childtypes for c in sp['children']): newtypes[i]=mapped
    # NOTE impl renames in dict iteration order and looks at *current* child types (possibly already renamed)
    prev={}
    def seq(i, inherited):
        sp=spans[i]
        gm=amap.get(newtypes[i],{})
        groups={}
        singles=[]
        for c in sp['children']:
            t=newtypes[c]
            if t in gm: groups.setdefault(gm[t],[]).append(c)
            else: singles.append([c])
        gl=[sorted(g,key=lambda c:spans[c]['s']) for g in list(groups.values())+singles]
        gl.sort(key=lambda g:spans[g[0]]['s'])
        if async_flag:
            merged=[]
            for g in gl:
                if merged and spans[g[0]]['s']<=merged[-1][1]:
                    merged[-1][0].extend(g); merged[-1][1]=max(merged[-1][1],max(spans[c]['e'] for c in g))
                else: merged.append([list(g),max(spans[c]['e'] for c in g)])
            gl=[m[0] for m in merged]
        cur=inherited
        for g in gl:
            for c in g: seq(c,cur)
            cur=list(g)
        prev[i]=cur
    root=[i for i,sp in spans.items() if sp['parent'] is None][0]
    seq(root,[])
    return {i:(newtypes[i],frozenset(p)) for i,p in prev.items()}
def run_impl(spans, async_flag, amap, rmap, order):
    evs=[OTelEvent(job_name="n",job_id="j",event_type=spans[i]['type'],event_id=str(i),start_timestamp=spans[i]['s'],end_timestamp=spans[i]['e'],application_name="app",parent_event_id=None if spans[i]['parent'] is None else str(spans[i]['parent']),child_event_ids=[str(c) for c in spans[i]['children']]) for i in order]
    rm={k:OTelEventTypeMap(mapped_event_type=v[0],child_event_types=set(v[1])) for k,v in rmap.items()} or None
    out=list(sequence_otel_job_id_streams([evs],async_flag,amap or None,rm))
    assert len(out)==1
    return {int(p['eventId']):(p['eventType'],frozenset(int(x) for x in p['previousEventIds'])) for p in out[0]}
def main(grid):
    AM=[{},{'r':{'a':'g1'}},{'r':{'a':'g1','b':'g1'}},{'r':{'a':'g1','b':'g2'}}]
    RM=[{},{'r':('R',['a'])},{'r':('R',['b'])}]
    iv=intervals(grid)
    res=Counter(); ex={}
    n=0
    for shape in SHAPES:
        k=len(shape)
        kids={i:[j for j in range(k) if shape[j]==i] for i in range(k)}
        for tl in itertools.product('ab',repeat=k-1):
            for ivs in itertools.product(iv,repeat=k-1):
                # distinct endpoints among siblings
                ok=True
                for i in range(k):
                    pts=[p for c in kids[i] for p in ivs[c-1]]
                    if len(set(pts))!=len(pts): ok=False;break
                if not ok: continue
                spans={0:dict(type='r',s=0,e=grid+1,parent=None,children=kids[0])}
                for j in range(1,k): spans[j]=dict(type=tl[j-1],s=ivs[j-1][0],e=ivs[j-1][1],parent=shape[j],children=kids[j])
                for af in (False,True):
                    for am in AM:
                        for rm in RM:
                            n+=1
                            exp=ref_sequence(spans,af,am,rm)
                            try: got=run_impl(spans,af,am,rm,list(range(k)))
                            except Exception as e:
                                res[('EXC',type(e).__name__,af,bool(am))]+=1; ex.setdefault(('EXC',af,repr(am)),(spans,af,am,rm,repr(e))); continue
                            if got==exp: res['OK']+=1
                            else:
                                res[('DIFF',af,len(am.get('r',{})))]+=1; ex.setdefault(('DIFF',af,repr(am)),(spans,af,am,rm,exp,got))
    print(n,res)
    for k,v in list(ex.items())[:6]: print(k,v)
t=time.time(); main(int(sys.argv[1])); print(time.time()-t)
