import sys,time,os,signal; sys.path.insert(0,'/tmp/scratch/shim'); sys.path.insert(0,'/tmp/scratch'); sys.path.insert(0,'/repo')
import warnings; warnings.filterwarnings('ignore')
import multiprocessing as mp, json
from ref import *
from fenum import seqs, name
class TO(Exception): pass
def h(*a): raise TO()
def work(shape):
    from tel2puml.pv_to_puml.pv_to_puml import pv_to_puml_string
    d=name(shape); jobs=runs(d,2)
    signal.signal(signal.SIGALRM,h); signal.alarm(60)
    t=time.time()
    try:
        out=pv_to_puml_string([to_pv(j,jid=f"j{i}") for i,j in enumerate(jobs)],"x")
    except TO: return (repr(d),'TIMEOUT','',60,len(jobs))
    except Exception as e:
        signal.alarm(0); return (repr(d),'EXC',repr(e)[:200],time.time()-t,len(jobs))
    signal.alarm(0)
    dt=time.time()-t
    try:
        ast=parse_puml(out); cj={canon(j) for j in jobs}; co={canon(j) for j in runs(ast,2)}
    except Exception as e: return (repr(d),'PARSE',out,dt,len(jobs))
    if not cj<=co: return (repr(d),'REJECT',out,dt,len(jobs))
    if cj!=co: return (repr(d),'EXTRA',out,dt,len(jobs))
    return (repr(d),'OK','',dt,len(jobs))
if __name__=="__main__":
    shapes=list(seqs(7,3,2,True,False,False))
    t=time.time()
    with mp.Pool(16) as p: res=p.map(work, shapes, chunksize=8)
    print('wall',time.time()-t,'cpu',sum(r[3] for r in res),'maxjobs',max(r[4] for r in res),'maxdt',max(r[3] for r in res))
    from collections import Counter
    print(Counter(r[1] for r in res))
    json.dump(res,open('/tmp/scratch/probe_7only.json','w'))
