import sys; sys.path.insert(0,'/repo')
from tel2puml.otel_to_pv.data_holders.sql_data_holder.sql_dataholder import SQLDataHolder
from tel2puml.otel_to_pv.config import SQLDataHolderConfig
from tel2puml.otel_to_pv.otel_to_pv_types import OTelEvent
import time
def mk(db="sqlite:///:memory:"):
    h=SQLDataHolder(SQLDataHolderConfig(db_uri=db,batch_size=2,time_buffer=0))
    with h:
        for j in range(3):
            h.save_data(OTelEvent(job_name="n",job_id=f"j{j}",event_type="r",event_id=f"j{j}r",start_timestamp=1,end_timestamp=10,application_name="a",parent_event_id=None))
            h.save_data(OTelEvent(job_name="n",job_id=f"j{j}",event_type="c",event_id=f"j{j}c",start_timestamp=2,end_timestamp=5,application_name="a",parent_event_id=f"j{j}r"))
    return h
t=time.time()
h=mk(); print(h.find_unique_graphs(), time.time()-t)
try:
    h2=mk(); print(h2.find_unique_graphs())
except Exception as e: print("second call in-process:", type(e).__name__, str(e)[:200])
try:
    print(h.find_unique_graphs())
except Exception as e: print("same holder again:", type(e).__name__, str(e)[:200])
t=time.time()
for i in range(50):
    hh=mk()
    list((n,[list(g) for g in gs]) for n,gs in hh.stream_data())
print("50 stores", time.time()-t)
