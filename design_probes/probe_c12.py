import sys,os,itertools,time; sys.path.insert(0,'/repo')
os.environ['TQDM_DISABLE']='1'
import logging; logging.disable(logging.CRITICAL)
from tel2puml.otel_to_pv.data_holders.sql_data_holder.sql_dataholder import SQLDataHolder
from tel2puml.otel_to_pv.config import SQLDataHolderConfig
from tel2puml.otel_to_pv.otel_to_pv_types import OTelEvent
from tel2puml.otel_to_pv.sequence_otel import job_ids_to_eventid_to_otelevent_map
import multiprocessing as mp
SH=[('a',),('a',('b',)),('a',('b',),('a',)),('a',('b',('a',)))]
def spans(t,jid,name):
    res=[]; cnt=itertools.count()
    def rec(t,parent):
        i=f"{jid}_{next(cnt)}"; res.append(dict(job_name=name,job_id=jid,event_type=t[0],event_id=i,start_timestamp=len(res)+1,end_timestamp=len(res)+2,application_name="a",parent_event_id=parent))
        for c in t[1:]: rec(c,i)
    rec(t,None); return res
def work(store):
    bad=[]; n=0
    traces=[spans(sh,f"j{k}",nm) for k,(nm,sh) in enumerate(store)]
    allspans={s['event_id']:s for t in traces for s in t}
    kids={}
    for s in allspans.values():
        if s['parent_event_id']: kids.setdefault(s['parent_event_id'],set()).add(s['event_id'])
    orders={'seq':[s for t in traces for s in t],'rev':[s for t in reversed(traces) for s in reversed(t)],'rr':[s for tup in itertools.zip_longest(*traces) for s in tup if s]}
    names=sorted({nm for nm,_ in store})
    byname={nm:[f"j{k}" for k,(n2,_) in enumerate(store) if n2==nm] for nm in names}
    filters={'none':None,'allofone':{names[0]:set(byname[names[0]])},'oneper':{nm:{ids[0]} for nm,ids in byname.items()},
             'wrongname':({names[0]:{byname[names[-1]][0]}} if len(names)>1 else {names[0]:{'nosuch'}})}
    for bs in (1,2,3,4,1000):
        for on,order in orders.items():
            for fn,flt in filters.items():
                for consumer in ('pipeline','nested'):
                    n+=1
                    h=SQLDataHolder(SQLDataHolderConfig(db_uri="sqlite:///:memory:",batch_size=bs,time_buffer=0))
                    with h:
                        for s in order: h.save_data(OTelEvent(**s))
                    got=[]
                    try:
                        for nm,gen in h.stream_data(flt):
                            if consumer=='pipeline':
                                jobs=[list(m.values()) for m in job_ids_to_eventid_to_otelevent_map(gen)]
                            else:
                                jobs=[[e for e in g] for g in gen]
                            got.append((nm,[[ (e.job_id,e.event_id,e.parent_event_id,frozenset(e.child_event_ids),e.job_name) for e in j] for j in jobs]))
                    except Exception as e: bad.append((store,bs,on,fn,consumer,'EXC '+repr(e)[:100])); continue
                    # expected
                    if flt is None: want={nm:set(ids) for nm,ids in byname.items()}
                    else: want={nm:{j for j in ids if j in byname.get(nm,[])} for nm,ids in flt.items()}; want={k:v for k,v in want.items() if v}
                    gotnames=[g[0] for g in got]
                    if sorted(gotnames)!=sorted(want) : bad.append((store,bs,on,fn,consumer,'names',gotnames,want)); continue
                    for nm,jobs in got:
                        jids=[j[0][0] for j in jobs]
                        if sorted(jids)!=sorted(want[nm]): bad.append((store,bs,on,fn,consumer,'jobs',nm,jids)); break
                        for j in jobs:
                            jid=j[0][0]; exp={s['event_id'] for s in allspans.values() if s['job_id']==jid}
                            if sorted(e[1] for e in j)!=sorted(exp) or any(e[0]!=jid or e[4]!=nm or e[2]!=allspans[e[1]]['parent_event_id'] or e[3]!=frozenset(kids.get(e[1],set())) for e in j):
                                bad.append((store,bs,on,fn,consumer,'spans',j)); break
    return n,bad
if __name__=="__main__":
    items=[(nm,sh) for nm in ('n1','n2','n3') for sh in SH]
    T=int(sys.argv[1]); stores=[c for r in range(1,T+1) for c in itertools.combinations_with_replacement(items,r)]
    t=time.time()
    with mp.Pool(16) as p: res=p.map(work,stores,chunksize=4)
    print('stores',len(stores),'runs',sum(r[0] for r in res),'bad',sum(len(r[1]) for r in res),'wall',time.time()-t)
    for r in res:
        if r[1]: print(r[1][0]); break
