import sys,time,os; sys.path.insert(0,'/tmp/scratch/shim'); sys.path.insert(0,'/tmp/scratch'); sys.path.insert(0,'/repo')
import warnings; warnings.filterwarnings('ignore')
import multiprocessing as mp, json
from ref import *
from fenum import seqs, name
import networkx as nx
def work(shape):
    import tel2puml.events
    from tel2puml.pv_to_puml.data_ingestion import update_and_create_events_from_clustered_pvevents
    from tel2puml.events import create_graph_from_events
    from tel2puml.loop_detection.detect_loops import detect_loops
    from tel2puml.loop_detection.loop_types import LoopEvent
    from copy import deepcopy
    d=name(shape)
    if 'loop' not in repr(d): return None
    jobs=runs(d,2)
    t=time.time()
    events=update_and_create_events_from_clustered_pvevents([to_pv(j,jid=f"j{i}") for i,j in enumerate(jobs)],add_dummy_start=True)
    g0=create_graph_from_events(deepcopy(events).values())
    types0={e.event_type for e in g0.nodes}
    sccs0=[{e.event_type for e in s} for s in nx.strongly_connected_components(g0) if len(s)>1 or any(g0.has_edge(n,n) for n in s)]
    try: g=detect_loops(g0)
    except Exception as e: return (repr(d),'EXC',repr(e)[:200])
    problems=[]
    seen=[]
    def rec(g, top, path):
        if not nx.is_directed_acyclic_graph(g): problems.append(('cyclic',path))
        roots=[n for n,deg in g.in_degree() if deg==0]
        if len(roots)!=1: problems.append(('roots',path,[r.event_type for r in roots]))
        elif len(nx.descendants(g,roots[0]))+1!=g.number_of_nodes(): problems.append(('unreachable',path))
        inner=set()
        for n in g.nodes:
            if isinstance(n,LoopEvent):
                inner|=rec(n.sub_graph, False, path+[n.event_type])
            elif n.event_type not in ('|||START|||','|||END|||','DUMMY_BREAK'):
                seen.append(n.event_type); inner.add(n.event_type)
        if not top: bodies.append(inner)
        return inner
    bodies=[]
    rec(g,True,[])
    from collections import Counter
    c=Counter(seen)
    exp=types0-{'|||START|||'}
    if set(c)!=exp: problems.append(('types',sorted(exp-set(c)),sorted(set(c)-exp)))
    if any(v>1 for v in c.values()): problems.append(('dup',[k for k,v in c.items() if v>1]))
    for s in sccs0:
        if not any(s<=b for b in bodies): problems.append(('scc_not_in_body',sorted(s)))
    return (repr(d),'OK' if not problems else 'BAD',repr(problems),time.time()-t)
if __name__=="__main__":
    N=int(sys.argv[1])
    shapes=[s for n in range(1,N+1) for s in seqs(n,3,2,True,False,False)]
    t=time.time()
    with mp.Pool(16) as p: res=[r for r in p.map(work,shapes,chunksize=8) if r]
    print('n',len(res),'wall',time.time()-t)
    from collections import Counter; print(Counter(r[1] for r in res))
    for r in [r for r in res if r[1]!='OK'][:25]: print(r[:3])
