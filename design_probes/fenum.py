"""scratch enumerator of fragment F: sequences with exactly n events, fork nesting depth<=d"""
import itertools, functools

def compositions(n, k):
    """k positive ints summing to n"""
    if k==1:
        if n>=1: yield (n,)
        return
    for a in range(1, n-k+2):
        for rest in compositions(n-a, k-1):
            yield (a,)+rest

# shapes use ('ev',None); names assigned later in DFS order
@functools.lru_cache(None)
def seqs(n, fd, ld, top, in_loop_body, nested_loop):
    """sequences with n events. fd: remaining fork depth, ld: remaining loop depth.
    top: is this the top-level sequence (detach allowed in its AND/OR forks)
    in_loop_body: sequence is directly a loop body (XOR with break branches allowed)
    nested_loop: the loop this body belongs to is nested"""
    res=[]
    # sequence = Ev^a1 Block1 Ev^a2 Block2 ... ; starts with >=1 ev; blocks separated by >=1 ev; may end with block
    def build(remaining, prefix, last_was_block):
        if remaining==0:
            res.append(tuple(prefix)); return
        # add an event
        build(remaining-1, prefix+[('ev',)], False)
        # add a block (needs previous to be event and at least... )
        if prefix and not last_was_block:
            for size in range(1, remaining+1):
                for blk in blocks(size, fd, ld, top, in_loop_body, nested_loop):
                    build(remaining-size, prefix+[blk], True)
    build(n, [], True)   # last_was_block=True at start forbids starting with block
    return tuple(res)

@functools.lru_cache(None)
def blocks(n, fd, ld, top, in_loop_body, nested_loop):
    res=[]
    if fd>0:
        for k in (2,3):
            if n<k: continue
            for comp in compositions(n,k):
                opts=[seqs(c, fd-1, ld, False, False, False) for c in comp]
                for brs in itertools.product(*opts):
                    # canonical: branches unordered -> keep sorted representation only
                    if list(brs)!=sorted(brs, key=repr): continue
                    for kind in ('and','or','xor'):
                        res.append((kind, tuple(brs)))
                        if top and kind in ('and','or'):
                            # detach at end of any non-empty proper... any nonempty subset of branches
                            for r in range(1,k+1):
                                for sub in itertools.combinations(range(k), r):
                                    b2=tuple(b+(('detach',),) if i in sub else b for i,b in enumerate(brs))
                                    res.append((kind,b2))
                    # break branches: xor directly in loop body
                    if in_loop_body:
                        for r in range(1,k):   # at least one non-break branch
                            for sub in itertools.combinations(range(k), r):
                                ok=all(all(x==('ev',) for x in brs[i]) and (len(brs[i])==1 or not nested_loop) for i in sub)
                                if ok:
                                    b2=tuple(b+(('break',),) if i in sub else b for i,b in enumerate(brs))
                                    res.append(('xor',b2))
    if ld>0 and n>=1:
        for body in seqs(n, fd, ld-1, False, True, (not top) ):
            res.append(('loop', body))
    return tuple(res)

def name(shape):
    cnt=itertools.count()
    def nm(s):
        out=[]
        for it in s:
            if it[0]=='ev': out.append(('ev', chr(65+next(cnt))))
            elif it[0] in ('detach','break'): out.append(it)
            elif it[0]=='loop': out.append(('loop', nm(it[1])))
            else: out.append((it[0], [nm(b) for b in it[1]]))
        return out
    return nm(shape)

if __name__=="__main__":
    import sys
    for n in range(1,8):
        print(n, len(seqs(n,3,2,True,False,False)))
