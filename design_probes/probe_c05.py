import sys,time,os; sys.path.insert(0,'/tmp/scratch/shim'); sys.path.insert(0,'/tmp/scratch'); sys.path.insert(0,'/repo')
import warnings; warnings.filterwarnings('ignore')
import multiprocessing as mp, json
from ref import *; from fenum import seqs, name; from strict import *
def work(shape):
    from tel2puml.pv_to_puml.pv_to_puml import pv_to_puml_string
    d=name(shape); jobs=runs(d,2)
    try: out=pv_to_puml_string([to_pv(j,jid=f"j{i}") for i,j in enumerate(jobs)],"x")
    except Exception as e: return (repr(d),'EXC',repr(e)[:100])
    types={t for j in jobs for _,t,_ in j}
    try: ast,info=strict_parse(out)
    except Bad as e: return (repr(d),'BAD',str(e))
    if set(info["events"])!=types: return (repr(d),'NAMES',repr(sorted(set(info["events"])^types)))
    if info["degenerate"]: return (repr(d),'DEGEN',repr(info["degenerate"])+out)
    return (repr(d),'OK','')
if __name__=="__main__":
    N=int(sys.argv[1]); shapes=[s for n in range(1,N+1) for s in seqs(n,3,2,True,False,False)]
    with mp.Pool(16) as p: res=p.map(work,shapes,chunksize=4)
    from collections import Counter; print(Counter(r[1] for r in res)); print(Counter((r[1],r[2][:40]) for r in res if r[1] not in('OK',)).most_common(20))
    for r in [r for r in res if r[1]=='DEGEN'][:3]: print(r)
