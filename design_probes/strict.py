import re
class Bad(Exception): pass
def strict_parse(text):
    lines=text.split("\n")
    if lines[0]!="@startuml" or lines[-1]!="@enduml": raise Bad("frame")
    m=re.fullmatch(r'\s*partition "(.*)" \{',lines[1]); 
    if not m: raise Bad("partition")
    if not re.fullmatch(r'\s*group "(.*)"',lines[2]): raise Bad("group")
    if lines[-3].strip()!="end group" or lines[-2].strip()!="}": raise Bad("tail")
    body=[l.strip() for l in lines[3:-3]]
    if any(l=="" for l in body): raise Bad("blank")
    pos=0; info={"events":[], "degenerate":[]}
    def seq(stops, in_loop, is_branch):
        nonlocal pos
        out=[]
        while pos<len(body) and body[pos] not in stops:
            l=body[pos]
            if out and out[-1][0] in('break','detach'): raise Bad(f"statement after {out[-1][0]}: {l}")
            m=re.fullmatch(r':(.+);',l)
            if m: out.append(('ev',m.group(1))); info["events"].append(m.group(1)); pos+=1
            elif l=='detach': out.append(('detach',)); pos+=1
            elif l=='break':
                if not in_loop: raise Bad("break outside loop")
                out.append(('break',)); pos+=1
            elif l=='repeat':
                pos+=1; b=seq({'repeat while'},True,False)
                if pos>=len(body): raise Bad("unclosed repeat")
                pos+=1
                if not b: info["degenerate"].append("empty loop")
                out.append(('loop',b))
            elif l in('fork','split'):
                again,end=l+' again','end '+l
                pos+=1; brs=[seq({again,end},in_loop,True)]
                while pos<len(body) and body[pos]==again:
                    pos+=1; brs.append(seq({again,end},in_loop,True))
                if pos>=len(body) or body[pos]!=end: raise Bad(f"unclosed {l}")
                pos+=1
                if len(brs)<2: info["degenerate"].append(f"{l} with 1 branch")
                if any(not b for b in brs): info["degenerate"].append(f"{l} empty branch")
                out.append(('and' if l=='fork' else 'or',brs))
            elif l=='switch (XOR)':
                pos+=1; brs=[]
                if pos>=len(body) or body[pos]!='case ("")': raise Bad("switch without case")
                while pos<len(body) and body[pos]=='case ("")':
                    pos+=1; brs.append(seq({'case ("")','endswitch'},in_loop,True))
                if pos>=len(body) or body[pos]!='endswitch': raise Bad("unclosed switch")
                pos+=1
                if len(brs)<2: info["degenerate"].append("switch with 1 case")
                if any(not b for b in brs): info["degenerate"].append("switch empty case")
                out.append(('xor',brs))
            else: raise Bad(f"unexpected line: {l}")
        return out
    ast=seq(set(),False,False)
    if pos!=len(body): raise Bad(f"trailing: {body[pos]}")
    return ast,info
