import sys,time,os,json,hashlib; sys.path.insert(0,'/tmp/scratch/shim'); sys.path.insert(0,'/tmp/scratch'); sys.path.insert(0,'/repo')
import warnings; warnings.filterwarnings('ignore')
from ref import *
from fenum import seqs, name
N=int(sys.argv[1]); mode=sys.argv[2]
from tel2puml.pv_to_puml.pv_to_puml import pv_to_puml_string
shapes=[s for n in range(1,N+1) for s in seqs(n,3,2,True,False,False)]
out={}
for s in shapes:
    d=name(s); jobs=runs(d,2)
    pv=[to_pv(j,jid=f"j{i}") for i,j in enumerate(jobs)]
    if mode=='rev': pv=[list(reversed(p)) for p in reversed(pv)]
    try:
        o=pv_to_puml_string(pv,"x")
        try: fp=hashlib.md5(repr(sorted({canon(j) for j in runs(parse_puml(o),2)})).encode()).hexdigest()
        except Exception as e: fp='PARSE'
    except Exception as e: fp='EXC:'+type(e).__name__
    out[repr(d)]=fp
json.dump(out,open(f'/tmp/scratch/seed_{os.environ.get("PYTHONHASHSEED")}_{mode}.json','w'))
