import sys,time; sys.path.insert(0,'/tmp/scratch/shim'); sys.path.insert(0,'/tmp/scratch'); sys.path.insert(0,'/repo')
import warnings; warnings.filterwarnings('ignore')
from ref import *
from tel2puml.pv_to_puml.pv_to_puml import pv_to_puml_string
from tel2puml.events import save_events_to_file, load_events_from_file
E=lambda n:('ev',n)
d=[E('A'),('xor',[[E('B'),('and',[[E('C')],[E('D')]]),E('F')],[E('E')]]),E('G')]
jobs=runs(d,2)
print(len(jobs))
allpv=[to_pv(j,jid=f"j{i}") for i,j in enumerate(jobs)]
one=pv_to_puml_string(allpv,"x")
# find job via E
idxE=[i for i,j in enumerate(jobs) if any(t=='E' for _,t,_ in j)][0]
events={}
pv_to_puml_string(allpv,"x",events=events)
save_events_to_file("x",events,"/tmp/scratch/m.json")
_,ev2=load_events_from_file("/tmp/scratch/m.json")
two=pv_to_puml_string([to_pv(jobs[idxE],jid="k0")],"x",events=ev2)
print(one); print(two)
co={canon(j) for j in runs(parse_puml(one),2)}; ct={canon(j) for j in runs(parse_puml(two),2)}
print(co==ct)
