import sys,time,os,glob; sys.path.insert(0,'/tmp/scratch/shim'); sys.path.insert(0,'/tmp/scratch'); sys.path.insert(0,'/repo')
import warnings; warnings.filterwarnings('ignore')
import multiprocessing as mp
from ref import *
files=sorted(glob.glob('/repo/end-to-end-pumls/**/*.puml',recursive=True))
files=[f for f in files if 'BCNT' not in open(f).read() and not os.path.basename(f).startswith('multiple_same_event_AND')]
def work(f):
    from tel2puml.pv_to_puml.pv_to_puml import pv_to_puml_string
    txt=open(f).read()
    try: d=parse_puml(txt)
    except Exception as e: return (f,'SRCPARSE',repr(e),0,0)
    jobs=runs(d,2)
    t=time.time()
    try: out=pv_to_puml_string([to_pv(j,jid=f"j{i}") for i,j in enumerate(jobs)],"x")
    except Exception as e: return (f,'EXC',repr(e)[:300],len(jobs),time.time()-t)
    dt=time.time()-t
    try:
        ast=parse_puml(out); cj={canon(j) for j in jobs}; co={canon(j) for j in runs(ast,2)}
    except Exception as e: return (f,'PARSE',repr(e)[:100]+out,len(jobs),dt)
    if not cj<=co: return (f,'REJECT',out,len(jobs),dt)
    if cj!=co: return (f,'EXTRA',out,len(jobs),dt)
    return (f,'OK','',len(jobs),dt)
if __name__=="__main__":
    print(len(files))
    with mp.Pool(16) as p: res=p.map(work,files,chunksize=1)
    for r in res: print(r[1], r[0].replace('/repo/end-to-end-pumls/',''), r[3], '%.1f'%r[4], r[2][:0] if r[1]=='OK' else '')
    import json; json.dump(res,open('/tmp/scratch/corpus.json','w'))
