"""scratch reference semantics for block-structured job definitions"""
import itertools, re

# AST: ('ev',name) | ('and'|'or'|'xor',[seq,...]) | ('loop',seq) | ('break',) | ('detach',)
# seq = list of items

class Run:
    __slots__=("events","n")
    def __init__(self): self.events=[]; self.n=0

def exec_seq(seq, ins, k):
    """yield (events(list of (id,type,prevs)), outs, breaks) ; ids are ints local -> we use structural build"""
    def rec(i, ins, evs, brk):
        if i==len(seq) or not ins:
            yield evs, ins, brk; return
        for e2, o2, b2 in exec_item(seq[i], ins, k, len(evs)):
            pass
    raise NotImplementedError

def runs(seq, k):
    """all executions: returns list of jobs; job = list of (id,type,tuple(prev))"""
    out=[]
    def ex_seq(seq, i, ins, evs, brk, cont):
        # cont(ins, evs, brk)
        if i==len(seq) or not ins:
            cont(ins, evs, brk); return
        ex_item(seq[i], ins, evs, brk, lambda o,e,b: ex_seq(seq,i+1,o,e,b,cont))
    def ex_item(it, ins, evs, brk, cont):
        t=it[0]
        if t=='ev':
            nid=len(evs)
            cont([nid], evs+[(nid,it[1],tuple(ins))], brk)
        elif t=='detach':
            cont([], evs, brk)
        elif t=='break':
            cont([], evs, brk+list(ins))
        elif t=='xor':
            for br in it[1]:
                ex_seq(br,0,ins,evs,brk,cont)
        elif t in('and','or'):
            brs=it[1]
            subsets=[tuple(range(len(brs)))] if t=='and' else [s for r in range(1,len(brs)+1) for s in itertools.combinations(range(len(brs)),r)]
            for sub in subsets:
                def chain(j, outs, evs, brk):
                    if j==len(sub): cont(outs, evs, brk); return
                    ex_seq(brs[sub[j]],0,ins,evs,brk,lambda o,e,b: chain(j+1,outs+o,e,b))
                chain(0,[],evs,brk)
        elif t=='loop':
            def iterate(n, ins, evs, outer_brk):
                def after(o,e,b):
                    # b are breaks of this loop body iteration
                    exits=list(b)
                    # exit loop now
                    if o or exits:
                        cont(o+exits, e, outer_brk)
                    if o and n<k:
                        # continue iterating: but breaks from this iteration? (AND w/ break) ignore: only when no breaks
                        if not exits:
                            iterate(n+1,o,e,outer_brk)
                ex_seq(it[1],0,ins,evs,[],after)
            iterate(1,ins,evs,brk)
        else: raise ValueError(t)
    ex_seq(seq,0,['S'],[],[],lambda o,e,b: out.append(e))
    # replace 'S' pred by nothing
    jobs=[]
    for e in out:
        jobs.append([(i,t,tuple(p for p in ps if p!='S')) for i,t,ps in e])
    return jobs

def canon(job):
    """canonical form of job DAG: multiset of ancestry hashes"""
    memo={}
    d={i:(t,ps) for i,t,ps in job}
    def h(i):
        if i not in memo:
            t,ps=d[i]; memo[i]=(t,tuple(sorted(h(p) for p in ps)))
        return memo[i]
    return tuple(sorted(h(i) for i in d))

def to_pv(job, jobname="J", jid="j0"):
    return [dict(jobId=jid,jobName=jobname,eventType=t,eventId=f"{jid}-{i}",timestamp="2024-01-01T00:00:00.000000Z",applicationName="app",previousEventIds=[f"{jid}-{p}" for p in ps]) for i,t,ps in job]

def parse_puml(text):
    lines=[l.strip() for l in text.splitlines()]
    lines=[l for l in lines if l and not l.startswith(('@','partition','group','end group','}'))]
    pos=0
    def pseq(stops):
        nonlocal pos
        seq=[]
        while pos<len(lines) and lines[pos] not in stops and not any(lines[pos].startswith(s) for s in stops if s.endswith('(')):
            l=lines[pos]
            if l.startswith(':') or l.startswith('#'):
                seq.append(('ev', re.match(r'(?:#\w+)?:(.*);$',l).group(1))); pos+=1
            elif l=='detach' or l=='kill': seq.append(('detach',)); pos+=1
            elif l=='break': seq.append(('break',)); pos+=1
            elif l=='repeat':
                pos+=1; body=pseq({'repeat while','repeat while ('}); pos+=1; seq.append(('loop',body))
            elif l=='fork' or l=='split':
                kind='and' if l=='fork' else 'or'
                again=l+' again'; end='end '+l
                pos+=1; brs=[pseq({again,end})]
                while lines[pos]==again:
                    pos+=1; brs.append(pseq({again,end}))
                pos+=1; seq.append((kind,brs))
            elif l.startswith('switch'):
                pos+=1; brs=[]
                while lines[pos].startswith('case'):
                    pos+=1; brs.append(pseq({'case (','endswitch'}))
                pos+=1; seq.append(('xor',brs))
            elif l.startswith('if '):
                pos+=1; brs=[pseq({'else','else (','elseif (','endif'})]
                while lines[pos].startswith('else'):
                    pos+=1; brs.append(pseq({'else','else (','elseif (','endif'}))
                pos+=1; seq.append(('xor',brs))
            else: raise ValueError(l)
        return seq
    return pseq(set())
