import sys,os,itertools,hashlib; sys.path.insert(0,'/tmp/scratch/shim'); sys.path.insert(0,'/tmp/scratch'); sys.path.insert(0,'/repo')
os.environ['TQDM_DISABLE']='1'
import warnings; warnings.filterwarnings('ignore')
from ref import *; from fenum import seqs,name
import tel2puml.events as ev, tel2puml.logic_detection as ld
import tel2puml.pv_to_puml.walk_puml_graph.node as nd
from tel2puml.pv_to_puml.pv_to_puml import pv_to_puml_string
class Sched:
    def __init__(s,perm): s.n=0; s.perm=perm; s.rank={}
    def uuid4(s):
        i=s.n; s.n+=1; u=f"u{i:06d}"; s.rank[u]=s.perm(i); return u
cur=None
orders=[]
def install(perm):
    global cur; cur=Sched(perm)
    ev.uuid4=cur.uuid4; ld.uuid4=cur.uuid4; nd.uuid4=cur.uuid4
ev.Event.__hash__=lambda self: cur.rank.get(self._uid, 0) if isinstance(self._uid,str) else hash(self._uid)
nd.Node.__hash__=lambda self: cur.rank.get(self.uid, 0) if isinstance(self.uid,str) else hash(self.uid)
# probe: record scc order
import tel2puml.loop_detection.detect_loops as dl
orig=dl.strongly_connected_components
def spy(g):
    res=list(orig(g)); orders.append(tuple(tuple(e.event_type for e in s) for s in res)); return iter(res)
dl.strongly_connected_components=spy
shapes=[s for n in range(1,6) for s in seqs(n,3,2,True,False,False)]
import time; t=time.time(); diffs=0; distinct_orders=0
for s in shapes[::7]:
    d=name(s); jobs=runs(d,2); pv=[to_pv(j,jid=f"j{i}") for i,j in enumerate(jobs)]
    outs=[]; ords=[]
    for perm in (lambda i:i, lambda i:i, lambda i:1000-i, lambda i:(i*7)%13):
        install(perm); orders.clear()
        try: o=pv_to_puml_string(pv,"x")
        except Exception as e: o="EXC "+type(e).__name__
        outs.append(o); ords.append(tuple(orders))
    assert outs[0]==outs[1], "nondeterministic"
    if len(set(ords))>1: distinct_orders+=1
    def fp(o):
        try: return frozenset(canon(j) for j in runs(parse_puml(o),2))
        except Exception: return 'PARSE'
    if len({fp(o) if not o.startswith('EXC') else o for o in outs})>1: diffs+=1; print('DIFF',d)
print('defs',len(shapes[::7]),'text-diff',sum(1 for _ in []),'lang diffs',diffs,'defs with distinct scc orders',distinct_orders,time.time()-t)
