import sys,os,itertools,time; sys.path.insert(0,'/repo')
os.environ['TQDM_DISABLE']='1'
import logging; logging.disable(logging.CRITICAL)
from tel2puml.otel_to_pv.data_holders.sql_data_holder.sql_dataholder import SQLDataHolder
from tel2puml.otel_to_pv.data_holders.sql_data_holder.data_model import Base
from tel2puml.otel_to_pv.config import SQLDataHolderConfig
from tel2puml.otel_to_pv.otel_to_pv_types import OTelEvent
import multiprocessing as mp
# shapes: nested tuples (type, children...) with sibling order significant for listing
def shapes3():
    L='ab'; out=[]
    for r in L:
        out.append((r,))
        for c in L:
            out.append((r,(c,)))
            for d in L:
                out.append((r,(c,(d,))))
                out.append((r,(c,),(d,)))
    return out
def canon(t): return (t[0],tuple(sorted(canon(c) for c in t[1:])))
def spans(t,jid,name):
    res=[]; cnt=itertools.count()
    def rec(t,parent):
        i=f"{jid}_{next(cnt)}"; res.append(dict(job_name=name,job_id=jid,event_type=t[0],event_id=i,start_timestamp=len(res)+1,end_timestamp=len(res)+2,application_name="a",parent_event_id=parent))
        for c in t[1:]: rec(c,i)
    rec(t,None); return res
def work(store):
    # store: tuple of (name, shape)
    bad=[]; n=0
    traces=[spans(sh,f"j{k}",nm) for k,(nm,sh) in enumerate(store)]
    exp={}
    for k,(nm,sh) in enumerate(store): exp.setdefault(nm,set()).add(canon(sh))
    orders={'seq':[s for t in traces for s in t],'rev':[s for t in reversed(traces) for s in t],'childfirst':[s for t in traces for s in reversed(t)],
            'rr':[s for tup in itertools.zip_longest(*traces) for s in tup if s]}
    for bs in (1,2,3,1000):
        for on,order in orders.items():
            n+=1
            if 'temp_root_nodes' in Base.metadata.tables: Base.metadata.remove(Base.metadata.tables['temp_root_nodes'])
            h=SQLDataHolder(SQLDataHolderConfig(db_uri="sqlite:///:memory:",batch_size=bs,time_buffer=0))
            with h:
                for s in order: h.save_data(OTelEvent(**s))
            try:
                h.remove_inconsistent_jobs(); h.remove_jobs_outside_of_time_window(); h.update_job_names_by_root_span()
                sel=h.find_unique_graphs()
            except Exception as e: bad.append((store,bs,on,'EXC '+repr(e)[:120])); continue
            got={}
            for nm,ids in sel.items():
                cs=[canon(store[int(j[1:])][1]) for j in ids]
                if any(store[int(j[1:])][0]!=nm for j in ids): bad.append((store,bs,on,'wrong name'))
                if len(set(cs))!=len(cs): bad.append((store,bs,on,'dup shape',sel))
                got[nm]=set(cs)
            if got!=exp: bad.append((store,bs,on,'shapes',sel))
    return n,bad
if __name__=="__main__":
    S=shapes3(); items=[(nm,sh) for nm in ('n1','n2') for sh in S]
    T=int(sys.argv[1])
    stores=[c for r in range(1,T+1) for c in itertools.combinations_with_replacement(items,r)]
    t=time.time()
    with mp.Pool(16) as p: res=p.map(work,stores,chunksize=8)
    print('shapes',len(S),'stores',len(stores),'runs',sum(r[0] for r in res),'bad',sum(len(r[1]) for r in res),'wall',time.time()-t)
    for r in res:
        if r[1]: print(r[1][0]); break
