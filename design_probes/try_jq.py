import sys,json; sys.path.insert(0,'/repo')
from tel2puml.otel_to_pv.data_sources.json_data_source.json_jq_converter import field_mapping_to_jq_query, compile_jq_query, generate_records_from_compiled_jq
fm={
 "job_name":{"key_paths":["resource_spans.[].resource.attributes.[].key"],"key_value":["service.name"],"value_paths":["value.Value.StringValue"],"value_type":"string"},
 "job_id":{"key_paths":["resource_spans.[].scope_spans.[].spans.[].trace_id"],"value_type":"string"},
 "event_type":{"key_paths":["resource_spans.[].scope_spans.[].spans.[].name",["resource_spans.[].scope_spans.[].spans.[].not_here","resource_spans.[].scope_spans.[].spans.[].attributes.[].key"]],"key_value":[None,[None,"http.response"]],"value_paths":[None,[None,"value.Value.IntValue"]],"value_type":"string"},
 "application_name":{"key_paths":["resource_spans.[].scope_spans.[].scope.name"],"value_type":"string"},
}
q=field_mapping_to_jq_query(fm); print(q)
c=compile_jq_query(q)
def span(i,attrs=True,name=True):
    s={"trace_id":f"t{i}","span_id":f"s{i}"}
    if name: s["name"]=f"/n{i}"
    if attrs is True: s["attributes"]=[{"key":"http.method","value":{"Value":{"StringValue":"GET"}}},{"key":"http.response","value":{"Value":{"IntValue":"200"}}}]
    elif attrs is not None: s["attributes"]=attrs
    return s
def doc(spans, res_attrs=True, scope=True):
    r={"scope_spans":[{"spans":spans}]}
    if scope: r["scope_spans"][0]["scope"]={"name":"G1"}
    if res_attrs: r["resource"]={"attributes":[{"key":"service.name","value":{"Value":{"StringValue":"App"}}}]}
    return {"resource_spans":[r]}
for d in [doc([span(1),span(2,attrs=[]),span(3,attrs=None),span(4,name=False)]), doc([]), doc([span(1)],res_attrs=False,scope=False), {"resource_spans":[]}, {}, {"resource_spans":[{"scope_spans":[]}]}, {"resource_spans":[{"scope_spans":[{"spans":[span(1)]},{"scope":{"name":"G2"},"spans":[span(2)]}]},{"scope_spans":[{"spans":[span(3)]}]}]}]:
    print(list(generate_records_from_compiled_jq(d,c)))
