import sys,os,json,time,shutil,yaml,glob
sys.path.insert(0,'/tmp/scratch/shim'); sys.path.insert(0,'/tmp/scratch'); sys.path.insert(0,'/repo')
os.environ['TQDM_DISABLE']='1'
import warnings; warnings.filterwarnings('ignore')
import tel2puml.events
from tel2puml.__main__ import main_handler, ERROR_MESSAGES
from tel2puml.otel_to_pv.data_holders.sql_data_holder.data_model import Base
W='/tmp/scratch/c14'
spans=[]
def tr(name,jid,shape):
    # shape: list of (id,type,parent,s,e)
    for i,t,p,s,e in shape:
        spans.append(dict(job_name=name,job_id=jid,event_type=t,event_id=f"{jid}_{i}",parent_event_id=None if p is None else f"{jid}_{p}",start=str(s*10**9),end=str(e*10**9),app="app"))
tr("wf one","t1",[(0,"r",None,0,10),(1,"a",0,1,2),(2,"b",0,3,4)])
tr("wf one","t2",[(0,"r",None,0,10),(1,"a",0,1,2),(2,"c",0,3,4)])
tr("wf2","t3",[(0,"r",None,0,10),(1,"a",0,1,5),(2,"b",0,3,7)])
json.dump({"spans":spans},open(W+'/in/data.json','w'))
fm={k:{"key_paths":["spans.[]."+v],"value_type":"string"} for k,v in dict(job_name="job_name",job_id="job_id",event_type="event_type",event_id="event_id",start_timestamp="start",end_timestamp="end",application_name="app",parent_event_id="parent_event_id").items()}
cfg=dict(ingest_data=dict(data_source="json",data_holder="sql"),data_holders=dict(sql=dict(db_uri="sqlite:///:memory:",batch_size=2,time_buffer=0)),data_sources=dict(json=dict(dirpath=W+'/in',filepath=None,json_per_line=False,field_mapping=fm)),sequencer=dict(async_flag=False))
yaml.safe_dump(cfg,open(W+'/cfg.yaml','w'))
yaml.safe_dump(dict(jobId="jid",eventId="eid",timestamp="ts",previousEventIds="prev",applicationName="an",jobName="jn",eventType="et"),open(W+'/map.yaml','w'))
def call(args):
    t=time.time()
    try: main_handler(dict(args),ERROR_MESSAGES); rc=0
    except SystemExit as e: rc=e.code
    return rc,time.time()-t
for d in ('o1','o2','o3'): shutil.rmtree(W+'/'+d,ignore_errors=True)
print(call(dict(command="otel2puml",output_file_directory=W+'/o1',config_file=W+'/cfg.yaml',ingest_data=True,find_unique_graphs=False,debug=True,input_puml_models=[],output_puml_models=False)))
print(call(dict(command="otel2pv",output_file_directory=W+'/o2',config_file=W+'/cfg.yaml',ingest_data=True,find_unique_graphs=False,save_events=True,mapping_config_file=W+'/map.yaml',debug=True)))
print(sorted(glob.glob(W+'/o2/*/*')))
for wf in os.listdir(W+'/o2'):
    print(call(dict(command="pv2puml",output_file_directory=W+'/o3',folder_path=W+'/o2/'+wf,file_paths=[],job_name=wf,group_by_job=False,mapping_config_file=W+'/map.yaml',debug=True,input_puml_models=[],output_puml_models=False)))
print(sorted(os.listdir(W+'/o1')),sorted(os.listdir(W+'/o3')))
for f in sorted(os.listdir(W+'/o1')): print(open(W+'/o1/'+f).read()==open(W+'/o3/'+f).read())
print(open(glob.glob(W+'/o2/*/*')[0]).read()[:400])
