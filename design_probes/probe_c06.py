import sys,time,itertools; sys.path.insert(0,'/tmp/scratch/shim'); sys.path.insert(0,'/repo')
import warnings; warnings.filterwarnings('ignore')
import multiprocessing as mp
OPS=('and','or','xor')
def comps(n,k):
    if k==1: yield (n,); return
    for a in range(1,n-k+2):
        for r in comps(n-a,k-1): yield (a,)+r
import functools
@functools.lru_cache(None)
def trees(n, depth, parent_op):
    """shapes with n leaves; leaves 'L'"""
    res=[]
    if n==1: return ('L',)
    if depth==0: return ()
    for op in OPS:
        if op==parent_op: continue
        for k in range(2,n+1):
            for c in comps(n,k):
                if list(c)!=sorted(c): continue  # unordered children by size then dedupe below
                for ch in itertools.product(*[trees(x,depth-1,op) for x in c]):
                    if list(ch)!=sorted(ch,key=repr): continue
                    res.append((op,)+tuple(ch))
    return tuple(dict.fromkeys(res))
def label(t):
    c=itertools.count()
    def r(t):
        if t=='L': return chr(65+next(c))
        return (t[0],)+tuple(r(x) for x in t[1:])
    return r(t)
def outcomes(t):
    if isinstance(t,str): return {frozenset([t])}
    op=t[0]; ch=[outcomes(c) for c in t[1:]]
    if op=='xor': return set().union(*ch)
    if op=='and': return {frozenset().union(*p) for p in itertools.product(*ch)}
    if op=='or':
        res=set()
        for r in range(1,len(ch)+1):
            for sub in itertools.combinations(ch,r):
                res|={frozenset().union(*p) for p in itertools.product(*sub)}
        return res
def pt_outcomes(pt):
    import tel2puml.events; from tel2puml.logic_detection import Operator
    if pt.operator is None:
        return {frozenset()} if pt.label is None else {frozenset([pt.label])}
    v=pt.operator.value; ch=[pt_outcomes(c) for c in pt.children]
    if v=='X': return set().union(*ch)
    if v=='+': return {frozenset().union(*p) for p in itertools.product(*ch)}
    if v=='O':
        res=set()
        for r in range(1,len(ch)+1):
            for sub in itertools.combinations(ch,r):
                res|={frozenset().union(*p) for p in itertools.product(*sub)}
        return res
    raise ValueError(v)
def exact_class(t, parent=None):
    if isinstance(t,str): return True
    if t[0]=='or' and not all(isinstance(c,str) for c in t[1:]): return False
    if t[0]=='and' and sum(1 for c in t[1:] if not isinstance(c,str) and c[0]=='or')>=2: return False
    return all(exact_class(c) for c in t[1:])
def work(t):
    import tel2puml.events; from tel2puml.logic_detection import calculate_logic_gates
    from tel2puml.events import EventSet
    obs=outcomes(t)
    t0=time.time()
    try:
        pt=calculate_logic_gates({EventSet(sorted(s)) for s in obs})
        adm=pt_outcomes(pt)
    except Exception as e: return (repr(t),'EXC',repr(e)[:100],time.time()-t0)
    dt=time.time()-t0
    if not obs<=adm: return (repr(t),'UNSOUND',str(pt),dt)
    if obs!=adm: return (repr(t),'INEXACT' if exact_class(t) else 'inexact-ok',str(pt),dt)
    return (repr(t),'OK',str(pt),dt)
if __name__=="__main__":
    N=int(sys.argv[1])
    ts=[label(t) for n in range(2,N+1) for t in trees(n,3,None)]
    print(len(ts))
    t0=time.time()
    with mp.Pool(16) as p: res=p.map(work,ts,chunksize=2)
    print('wall',time.time()-t0,'cpu',sum(r[3] for r in res))
    from collections import Counter; print(Counter(r[1] for r in res))
    for r in res:
        if r[1] in('EXC','UNSOUND','INEXACT'): print(r[:3])
