import sys,time,os; sys.path.insert(0,'/tmp/scratch/shim'); sys.path.insert(0,'/tmp/scratch'); sys.path.insert(0,'/repo')
import warnings; warnings.filterwarnings('ignore')
import multiprocessing as mp, traceback, json
from ref import *
from fenum import seqs, name

def work(shape):
    from tel2puml.pv_to_puml.pv_to_puml import pv_to_puml_string
    d=name(shape)
    jobs=runs(d,2)
    t=time.time()
    try:
        out=pv_to_puml_string([to_pv(j,jid=f"j{i}") for i,j in enumerate(jobs)],"x")
    except Exception as e:
        return (repr(d),'EXC',repr(e)[:200],time.time()-t)
    dt=time.time()-t
    try:
        ast=parse_puml(out)
        cj={canon(j) for j in jobs}; co={canon(j) for j in runs(ast,2)}
    except Exception as e:
        return (repr(d),'PARSE',repr(e)[:200]+out,dt)
    if not cj<=co: return (repr(d),'REJECT',out,dt)
    if cj!=co: return (repr(d),'EXTRA',out,dt)
    return (repr(d),'OK','',dt)

if __name__=="__main__":
    N=int(sys.argv[1])
    shapes=[s for n in range(1,N+1) for s in seqs(n,3,2,True,False,False)]
    print(len(shapes)); t=time.time()
    with mp.Pool(16) as p:
        res=p.map(work, shapes, chunksize=4)
    print('wall',time.time()-t, 'cpu', sum(r[3] for r in res))
    from collections import Counter
    print(Counter(r[1] for r in res))
    json.dump(res, open(f'/tmp/scratch/probe_{N}.json','w'))
    for r in res:
        if r[1]!='OK': print(r[1], r[0]); 
