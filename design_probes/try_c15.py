import sys; sys.path.insert(0,'/repo'); sys.path.insert(0,'/tmp/scratch')
from tel2puml.otel_to_pv.data_holders.sql_data_holder.sql_dataholder import SQLDataHolder
from tel2puml.otel_to_pv.config import SQLDataHolderConfig
from tel2puml.otel_to_pv.otel_to_pv_types import OTelEvent
db="sqlite:////tmp/scratch/c15.db"
h=SQLDataHolder(SQLDataHolderConfig(db_uri=db,batch_size=2,time_buffer=0))
if sys.argv[1]=="ingest":
    with h:
        for j in range(3):
            h.save_data(OTelEvent(job_name="n",job_id=f"j{j}",event_type="r",event_id=f"j{j}r",start_timestamp=1,end_timestamp=10,application_name="a",parent_event_id=None))
            h.save_data(OTelEvent(job_name="n",job_id=f"j{j}",event_type="c",event_id=f"j{j}c",start_timestamp=2,end_timestamp=5,application_name="a",parent_event_id=f"j{j}r"))
try:
    print(sys.argv[1], h.find_unique_graphs())
except Exception as e: print(sys.argv[1], "FAIL", type(e).__name__, str(e)[:150])
