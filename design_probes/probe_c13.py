import sys,json,copy,itertools,time,os; sys.path.insert(0,'/repo')
os.environ['TQDM_DISABLE']='1'
from tel2puml.otel_to_pv.data_sources.json_data_source.json_jq_converter import field_mapping_to_jq_query, compile_jq_query, generate_records_from_compiled_jq
from tel2puml.otel_to_pv.otel_to_pv_types import OTelEvent
from pydantic import ValidationError
P="resource_spans.[].scope_spans.[].spans.[]."
MAP_EX4={
 "job_name":{"key_paths":["resource_spans.[].resource.attributes.[].key"],"key_value":["service.name"],"value_paths":["value.Value.StringValue"],"value_type":"string"},
 "job_id":{"key_paths":[P+"trace_id"],"value_type":"string"},
 "event_type":{"key_paths":[P+"name",[P+"not_here",P+"attributes.[].key"]],"key_value":[None,[None,"http.response"]],"value_paths":[None,[None,"value.Value.IntValue"]],"value_type":"string"},
 "event_id":{"key_paths":[P+"span_id"],"value_type":"string"},
 "start_timestamp":{"key_paths":[P+"start_time_unix_nano"],"value_type":"string"},
 "end_timestamp":{"key_paths":[P+"end_time_unix_nano"],"value_type":"string"},
 "application_name":{"key_paths":["resource_spans.[].scope_spans.[].scope.name"],"value_type":"string"},
 "parent_event_id":{"key_paths":[P+"parent_span_id"],"value_type":"string"},
}
def norm(spec):
    kp=spec["key_paths"]; kp=[kp] if isinstance(kp,str) else list(kp)
    kp=[(p,) if isinstance(p,str) else tuple(p) for p in kp]
    def opt(x):
        if x is None: return [tuple([None]*len(p)) for p in kp]
        x=[x] if isinstance(x,str) else list(x)
        return [tuple([None]*len(p)) if v is None else ((v,) if isinstance(v,str) else tuple(v)) for v,p in zip(x,kp)]
    return kp,opt(spec.get("key_value")),opt(spec.get("value_paths"))
def get(obj,path):
    for k in path.split("."):
        if isinstance(obj,dict) and k in obj: obj=obj[k]
        elif isinstance(obj,dict): return None
        elif obj is None: return None
        else: raise TypeError   # jq: cannot index non-object -> error -> catch null
    return obj
def safe_get(obj,path):
    try: return get(obj,path)
    except TypeError: return None
def tostr(v):
    if v is None: return None
    if isinstance(v,str): return v
    return json.dumps(v,separators=(',',':'))
def ref_records(doc, mapping):
    specs={f:norm(s) for f,s in mapping.items()}
    # array chain prefixes to iterate
    prefixes=set()
    for kp,kv,vp in specs.values():
        for pk,pv in zip(kp,kv):
            for path,keyv in zip(pk,pv):
                parts=path.split(".[].")
                iters=parts[:-1] if keyv is None else parts[:-2]
                for i in range(1,len(iters)+1): prefixes.add(tuple(iters[:i]))
    # require a single chain
    chain=sorted(prefixes,key=len)
    for a,b in zip(chain,chain[1:]): assert b[:len(a)]==a, "not a chain"
    levels=chain[-1] if chain else ()
    def bindings(i,obj,bound):
        if i==len(levels): yield dict(bound); return
        try: arr=get(obj,levels[i])
        except TypeError: arr=None
        if isinstance(arr,list): elems=arr
        elif isinstance(arr,dict): elems=list(arr.values())
        else: elems=[None]     # null[] errors -> catch null ; also scalars error -> null
        for el in elems:
            bound[levels[:i+1]]=el
            yield from bindings(i+1,el,bound)
    out=[]
    for b in bindings(0,doc,{():doc}):
        rec={}
        for f,(kp,kv,vp) in specs.items():
            parts_out=[]
            for pk,pv,pvp in zip(kp,kv,vp):
                val=None
                for path,keyv,valp in zip(pk,pv,pvp):
                    parts=path.split(".[].")
                    if keyv is None:
                        base=b[tuple(parts[:-1])]; v=safe_get(base,parts[-1]) if base is not None or True else None
                        if base is None: v=None
                    else:
                        base=b[tuple(parts[:-2])]
                        v=None
                        try:
                            arr=get(base,parts[-2]) if base is not None else None
                            if isinstance(arr,list):
                                d={}
                                for el in arr:
                                    k=get(el,parts[-1]) if isinstance(el,(dict,type(None))) else (_ for _ in ()).throw(TypeError())
                                    if k is None or k is False: continue
                                    if not isinstance(k,str): raise TypeError
                                    d[k]=get(el,valp)
                                v=d.get(keyv)
                            else: v=None if arr is None else (_ for _ in ()).throw(TypeError())
                        except TypeError: v=None
                    if v is not None and v is not False: val=v; break
                    val=v if v is False and val is None else val
                parts_out.append(None if (val is None or val is False and False) else tostr(val))
            rec[f]=None if any(p is None for p in parts_out) else "_".join(parts_out)
        out.append(rec)
    return out
def valid(recs):
    res=[]
    for r in recs:
        try: res.append(OTelEvent(**r).model_dump())
        except ValidationError: pass
    return res
def default_doc():
    def attrs(i): return [{"key":"http.method","value":{"Value":{"StringValue":"GET"}}},{"key":"http.response","value":{"Value":{"IntValue":"20%d"%i}}}]
    def span(r,s,p): 
        i=r*4+s*2+p
        return {"trace_id":f"t{i}","span_id":f"s{i}","parent_span_id":None if p==0 else f"s{i-1}","name":f"/n{i}","start_time_unix_nano":str(1000+i),"end_time_unix_nano":str(2000+i),"attributes":attrs(i)}
    return {"resource_spans":[{"resource":{"attributes":[{"key":"service.name","value":{"Value":{"StringValue":f"App{r}"}}},{"key":"service.version","value":{"Value":{"StringValue":"1.0"}}}]},"scope_spans":[{"scope":{"name":f"G{r}{s}"},"spans":[span(r,s,p) for p in range(2)]} for s in range(2)]} for r in range(2)]}
def sites(obj,path=()):
    """yield (path) of every dict key and list index"""
    if isinstance(obj,dict):
        for k,v in obj.items():
            yield path+(k,); yield from sites(v,path+(k,))
    elif isinstance(obj,list):
        for i,v in enumerate(obj):
            yield path+(i,); yield from sites(v,path+(i,))
def apply(doc,path,op):
    d=copy.deepcopy(doc); o=d
    for k in path[:-1]: o=o[k]
    k=path[-1]
    if op=='del':
        if isinstance(o,list): o.pop(k)
        else: del o[k]
    elif op=='null': o[k]=None
    elif op=='empty':
        if isinstance(o[k],list): o[k]=[]
        elif isinstance(o[k],dict): o[k]={}
        else: return None
    elif op=='num':
        if isinstance(o[k],str): o[k]=7
        else: return None
    elif op=='dup':
        if isinstance(o,list): o.insert(k,copy.deepcopy(o[k]))
        else: return None
    return d
if __name__=="__main__":
    q=field_mapping_to_jq_query(MAP_EX4); c=compile_jq_query(q)
    base=default_doc()
    docs=[base]
    for p in sites(base):
        for op in ('del','null','empty','num','dup'):
            d=apply(base,p,op)
            if d is not None: docs.append(d)
    print(len(docs))
    t=time.time(); bad=0; shown=0
    for d in docs:
        try: got=list(generate_records_from_compiled_jq(d,c))
        except Exception as e: got=('EXC',repr(e)[:80])
        try: exp=ref_records(d,MAP_EX4)
        except Exception as e: exp=('REFEXC',repr(e)[:80])
        if got!=exp:
            # compare at OTelEvent level
            lvl='raw'
            if isinstance(got,list) and isinstance(exp,list) and valid(got)==valid(exp): lvl='rawonly'
            else: lvl='EVENT'
            bad+=1
            if shown<8 and lvl=='EVENT': shown+=1; print(lvl, json.dumps(d)[:300]); print(' got',got if not isinstance(got,list) else got[:3]); print(' exp',exp if not isinstance(exp,list) else exp[:3])
            elif shown<8 and lvl=='rawonly' and bad<3: print('rawonly example', [g for g in got if g not in exp][:2],[e for e in exp if e not in got][:2])
    print('docs',len(docs),'diff',bad,time.time()-t)
