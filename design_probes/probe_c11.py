import sys,os,itertools,time; sys.path.insert(0,'/repo')
os.environ['TQDM_DISABLE']='1'
import logging; logging.disable(logging.CRITICAL)
from tel2puml.otel_to_pv.data_holders.sql_data_holder.sql_dataholder import SQLDataHolder
from tel2puml.otel_to_pv.data_holders.sql_data_holder.data_model import NodeModel
from tel2puml.otel_to_pv.config import SQLDataHolderConfig
from tel2puml.otel_to_pv.otel_to_pv_types import OTelEvent
from tel2puml.otel_to_pv.sequence_otel import sequence_otel_job_id_streams
import multiprocessing as mp
M=60*10**9
# kinds: (root interval, child interval or None, flags)
KINDS={
 'in1':((2,3),None,''), 'in2':((2,3),(2,3),''), 'early':((0,1),None,''),'late':((4,5),None,''),'earlyin':((0,2),None,''),'inlate':((3,5),None,''),
 'span':((0,5),None,''),'mid':((1,4),(2,3),''),'dangle':((2,3),(2,3),'D'),'dangle_out':((0,0),(0,0),'D'),'names':((2,3),(2,3),'N'),'names_out':((5,5),(5,5),'N'),
}
def mk(kind,k):
    r,c,fl=KINDS[kind]; jid=f"j{k}"; out=[]
    if 'D' in fl:
        out.append(dict(job_name="n",job_id=jid,event_type="c",event_id=f"{jid}c",start_timestamp=c[0]*M,end_timestamp=c[1]*M,application_name="a",parent_event_id=f"{jid}missing"))
        out.append(dict(job_name="n",job_id=jid,event_type="r",event_id=f"{jid}r",start_timestamp=r[0]*M,end_timestamp=r[1]*M,application_name="a",parent_event_id=None))
        return out
    out.append(dict(job_name="n",job_id=jid,event_type="r",event_id=f"{jid}r",start_timestamp=r[0]*M,end_timestamp=r[1]*M,application_name="a",parent_event_id=None))
    if c: out.append(dict(job_name="other" if 'N' in fl else "n",job_id=jid,event_type="c",event_id=f"{jid}c",start_timestamp=c[0]*M,end_timestamp=c[1]*M,application_name="a",parent_event_id=f"{jid}r"))
    return out
def pvcanon(h):
    res={}
    for nm,gen in h.stream_data():
        for job in sequence_otel_job_id_streams(gen):
            evs=sorted((e['eventId'],e['eventType'],e['jobName'],e['timestamp'],tuple(sorted(e['previousEventIds'])),e['jobId'],e['applicationName']) for e in job)
            res[evs[0][5]]=(nm,tuple(evs))
    return res
def clean(h):
    h.remove_inconsistent_jobs(); h.remove_jobs_outside_of_time_window(); h.update_job_names_by_root_span()
def work(arg):
    store,buf=arg
    traces=[mk(kd,k) for k,kd in enumerate(store)]
    spans=[s for t in traces for s in t]
    bad=[]
    for bs in (1,1000):
        for order in (spans,list(reversed(spans))):
            h=SQLDataHolder(SQLDataHolderConfig(db_uri="sqlite:///:memory:",batch_size=bs,time_buffer=buf))
            with h:
                for s in order: h.save_data(OTelEvent(**s))
            mn=min(s['start_timestamp'] for s in spans); mx=max(s['end_timestamp'] for s in spans)
            lo,hi=mn+buf*M,mx-buf*M
            ids={s['event_id'] for s in spans}
            # reference
            dang={s['job_id'] for s in spans if s['parent_event_id'] and s['parent_event_id'] not in ids}
            surv=[t for t in traces if t[0]['job_id'] not in dang]
            experr = lo>=hi
            inwin=lambda t: any(lo<=s['start_timestamp']<=hi or lo<=s['end_timestamp']<=hi for s in t)
            surv2=[t for t in surv if inwin(t)]
            try: clean(h); err=False
            except ValueError: err=True
            if err!=experr: bad.append((store,buf,bs,'err',err,experr)); continue
            if err: continue
            with h.session as s_: rows=sorted((n.event_id,n.job_id,n.job_name,n.event_type,n.start_timestamp,n.end_timestamp,n.parent_event_id) for n in s_.query(NodeModel).all())
            exp=sorted((s['event_id'],s['job_id'],[x for x in t if x['parent_event_id'] is None][0]['job_name'],s['event_type'],s['start_timestamp'],s['end_timestamp'],s['parent_event_id']) for t in surv2 for s in t)
            if rows!=exp: bad.append((store,buf,bs,'rows',rows,exp)); continue
            # frame: fresh store with survivors only, window pinned
            got=pvcanon(h)
            h2=SQLDataHolder(SQLDataHolderConfig(db_uri="sqlite:///:memory:",batch_size=bs,time_buffer=buf))
            with h2:
                for t in surv2:
                    for s in t: h2.save_data(OTelEvent(**s))
            h2._min_timestamp,h2._max_timestamp=mn,mx
            clean(h2)
            if pvcanon(h2)!=got: bad.append((store,buf,bs,'frame',got,pvcanon(h2)))
    return 4,bad
if __name__=="__main__":
    T=int(sys.argv[1]); args=[(c,b) for r in range(1,T+1) for c in itertools.combinations_with_replacement(sorted(KINDS),r) for b in (0,1)]
    t=time.time()
    with mp.Pool(16) as p: res=p.map(work,args,chunksize=4)
    print('stores',len(args),'bad',sum(len(r[1]) for r in res),'wall',time.time()-t)
    seen=set()
    for r in res:
        for b in r[1]:
            if b[3] not in seen: seen.add(b[3]); print(b)
