import sys,os,itertools,time,sqlite3,tempfile; sys.path.insert(0,'/repo')
os.environ['TQDM_DISABLE']='1'
import logging; logging.disable(logging.CRITICAL)
from tel2puml.otel_to_pv.data_holders.sql_data_holder.sql_dataholder import SQLDataHolder
from tel2puml.otel_to_pv.config import SQLDataHolderConfig
from tel2puml.otel_to_pv.otel_to_pv_types import OTelEvent
import multiprocessing as mp
PARENT={('a',1):None,('a',2):None,('b',1):'a',('b',2):'c',('c',1):'a',('c',2):'b'}
def ev(i,v): return OTelEvent(job_name=f"n{v}",job_id="j",event_type=f"t{i}{v}",event_id=i,start_timestamp=10*v,end_timestamp=10*v+5,application_name=f"app{v}",parent_event_id=PARENT[(i,v)])
ALPH=[(i,v) for i in 'abc' for v in (1,2)]
def splits(n,maxruns=3):
    # cut positions
    for r in range(0,maxruns):
        for cuts in itertools.combinations(range(1,n),r):
            yield (0,)+cuts+(n,)
def run(seq,bs,cuts,db):
    fallback=0
    for a,b in zip(cuts,cuts[1:]):
        h=SQLDataHolder(SQLDataHolderConfig(db_uri=f"sqlite:///{db}",batch_size=bs,time_buffer=0))
        with h:
            for i,v in seq[a:b]: h.save_data(ev(i,v))
        assert not h.node_models_to_save and not h.node_relationships_to_save
        h.engine.dispose()
    con=sqlite3.connect(db)
    nodes=sorted(con.execute("select event_id,event_type,job_name,start_timestamp,end_timestamp,application_name,parent_event_id from nodes").fetchall())
    assoc=sorted(con.execute("select parent_id,child_id from NODE_ASSOCIATION").fetchall())
    con.close(); os.remove(db)
    return nodes,assoc
def ref(seq):
    first={}
    for i,v in seq: first.setdefault(i,v)
    nodes=sorted((i,f"t{i}{v}",f"n{v}",10*v,10*v+5,f"app{v}",PARENT[(i,v)]) for i,v in first.items())
    assoc=sorted((PARENT[(i,v)],i) for i,v in first.items() if PARENT[(i,v)])
    return nodes,assoc
def work(seq):
    d=tempfile.mkdtemp(dir='/dev/shm'); bad=[]; n=0
    for bs in range(1,len(seq)+2):
        for cuts in splits(len(seq)):
            n+=1
            try: got=run(seq,bs,cuts,d+'/x.db')
            except Exception as e:
                bad.append((seq,bs,cuts,'EXC '+repr(e)[:150]))
                if os.path.exists(d+'/x.db'): os.remove(d+'/x.db')
                continue
            if got!=ref(seq): bad.append((seq,bs,cuts,got,ref(seq)))
    os.rmdir(d); return n,bad
if __name__=="__main__":
    L=int(sys.argv[1]); seqs=[s for l in range(1,L+1) for s in itertools.product(ALPH,repeat=l)]
    t=time.time()
    with mp.Pool(16) as p: res=p.map(work,seqs,chunksize=8)
    print('seqs',len(seqs),'execs',sum(r[0] for r in res),'bad',sum(len(r[1]) for r in res),'wall',time.time()-t)
    for r in res:
        for b in r[1][:1]: print(b); break
        if r[1]: break
