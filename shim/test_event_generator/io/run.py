def puml_file_to_test_events(*a, **k):
    raise NotImplementedError("janus absent")
