class EventData: pass
def get_unparsed_job_defs(*a, **k): raise NotImplementedError
def parse_raw_job_def_lines(*a, **k): raise NotImplementedError
