from .event_solution import EventSolution
class GraphSolution:
    def __init__(self):
        self.start_events = {}
        self.end_events = {}
        self.events = {}
        self.event_dict_count = 0
    def add_event(self, event):
        self.event_dict_count += 1
        k = self.event_dict_count
        if event.is_start: self.start_events[k] = event
        if event.is_end: self.end_events[k] = event
        self.events[k] = event
    @classmethod
    def from_event_list(cls, event_list):
        inst = cls()
        m = {}
        evs = list(event_list)
        for ev in evs:
            m[ev["eventId"]] = EventSolution(meta_data={"EventType": ev["eventType"]})
        for ev in evs:
            prev = ev.get("previousEventIds", [])
            if isinstance(prev, str): prev = [prev]
            for p in prev:
                m[ev["eventId"]].add_prev_event(m[p])
        for es in m.values():
            es.add_to_previous_events()
        for es in m.values():
            inst.add_event(es)
        return inst
