class EventSolution:
    def __init__(self, is_branch=False, is_break_point=False, meta_data=None, **kw):
        self.is_branch = is_branch
        self.is_break_point = is_break_point
        self.meta_data = dict(meta_data) if meta_data else {}
        self.post_events = []
        self.previous_events = []
    def add_post_event(self, e):
        self.post_events.append(e)
    def add_prev_event(self, e):
        self.previous_events.append(e)
    def add_to_post_events(self):
        for p in self.post_events:
            p.add_prev_event(self)
    def add_to_previous_events(self):
        for p in self.previous_events:
            p.add_post_event(self)
    @property
    def is_start(self): return len(self.previous_events) == 0
    @property
    def is_end(self): return len(self.post_events) == 0
    def get_post_event_edge_tuples(self):
        return [(self, p) for p in self.post_events]
