"""C11 - cleaning removes exactly the broken or out-of-window traces.

Model checking over stores x time_buffer: every multiset of <= 3 (4) traces
over 16 trace kinds on a minute grid 0..5; x time_buffer x batch size x two
ingestion orders.  Real code: ingestion, the three cleaning steps in the order
of otel_to_pv, stream + sequence.  Oracle: set comprehension + differential
frame condition against a fresh store holding only the survivors."""
import itertools

from .. import impl_otel
from ..findings import input_key

ID = "C11"
LEVEL = "model_checking"
HANDLER = "mc.checks.c11:handle"
TIMEOUT = 900.0
M = 60 * 10 ** 9
# kind: (root interval, child interval or None, flags)  D = dangling parent,
# N = child carries another workflow name, G = grandchild dangling chain
KINDS = {
    'in1': ((2, 3), None, ''), 'in2': ((2, 3), (2, 3), ''),
    'early': ((0, 1), None, ''), 'late': ((4, 5), None, ''),
    'earlyin': ((0, 2), None, ''), 'inlate': ((3, 5), None, ''),
    'span': ((0, 5), None, ''), 'mid': ((1, 4), (2, 3), ''),
    'edge_lo': ((0, 1), (1, 1), ''), 'edge_hi': ((4, 5), (4, 4), ''),
    'dangle': ((2, 3), (2, 3), 'D'), 'dangle_out': ((0, 0), (0, 0), 'D'),
    'names': ((2, 3), (2, 3), 'N'), 'names_out': ((5, 5), (5, 5), 'N'),
    # dangling parent AND a foreign workflow name on the dangling span
    'dangle_names': ((2, 3), (2, 3), 'DN'),
    # root + two children, one of them dangling under a foreign name
    'dangle_sib': ((2, 3), (2, 3), 'DNS'),
    # wave 14: a complete trace one of whose spans names a parent that is in
    # the store, but under ANOTHER trace id (a one-span host trace that comes
    # with it); nothing is missing, so cleaning must leave both alone
    'xlink': ((2, 3), (2, 3), 'X'),
}


# realistic magnitude: epoch nanoseconds that are not a multiple of 256 (the
# spacing of doubles near 1.7e18), so float arithmetic on the window edges
# no longer lands on the integer values
EPOCH_BASE = 1_715_688_000_123_456_789


def mk(kind, k, base=0):
    """-> list of traces (one, except for kinds that bring a host trace)"""
    out = _mk(kind, k)
    if base:
        for s in out:
            s["start_timestamp"] += base
            s["end_timestamp"] += base
    if 'X' in KINDS[kind][2]:
        return [[s for s in out if s["job_id"].endswith("h")],
                [s for s in out if not s["job_id"].endswith("h")]]
    return [out]


def _mk(kind, k):
    r, c, fl = KINDS[kind]
    jid = f"j{k}"
    out = []
    root = dict(job_name="n", job_id=jid, event_type="r", event_id=f"{jid}r",
                start_timestamp=r[0] * M, end_timestamp=r[1] * M,
                application_name="a", parent_event_id=None)
    if 'D' in fl:
        out.append(dict(job_name="other" if 'N' in fl else "n", job_id=jid,
                        event_type="c",
                        event_id=f"{jid}c", start_timestamp=c[0] * M,
                        end_timestamp=c[1] * M, application_name="a",
                        parent_event_id=f"{jid}missing"))
        out.append(root)
        if 'S' in fl:
            out.append(dict(job_name="n", job_id=jid, event_type="d",
                            event_id=f"{jid}d", start_timestamp=c[0] * M,
                            end_timestamp=c[1] * M, application_name="a",
                            parent_event_id=f"{jid}r"))
        return out
    out.append(root)
    if 'X' in fl:
        out.append(dict(job_name="n", job_id=jid + "h", event_type="h",
                        event_id=f"{jid}host", start_timestamp=r[0] * M,
                        end_timestamp=r[1] * M, application_name="a",
                        parent_event_id=None))
        out.append(dict(job_name="n", job_id=jid, event_type="c",
                        event_id=f"{jid}c", start_timestamp=c[0] * M,
                        end_timestamp=c[1] * M, application_name="a",
                        parent_event_id=f"{jid}host"))
        return out
    if c:
        out.append(dict(job_name="other" if 'N' in fl else "n", job_id=jid,
                        event_type="c", event_id=f"{jid}c",
                        start_timestamp=c[0] * M, end_timestamp=c[1] * M,
                        application_name="a", parent_event_id=f"{jid}r"))
    return out


def pvcanon(h):
    from tel2puml.otel_to_pv.sequence_otel import sequence_otel_job_id_streams
    res = {}
    for nm, gen in h.stream_data():
        for job in sequence_otel_job_id_streams(gen):
            evs = sorted((e['eventId'], e['eventType'], e['jobName'],
                          e['timestamp'],
                          tuple(sorted(e['previousEventIds'])), e['jobId'],
                          e['applicationName']) for e in job)
            res[evs[0][5]] = (nm, tuple(evs))
    return res


def pvcanon_x(h):
    try:
        return pvcanon(h)
    except KeyError as e:
        return {"EXC": ("KeyError", str(e))}


def clean(h):
    h.remove_inconsistent_jobs()
    h.remove_jobs_outside_of_time_window()
    h.update_job_names_by_root_span()


def rows_of(h):
    from tel2puml.otel_to_pv.data_holders.sql_data_holder.data_model import \
        NodeModel
    with h.session as s_:
        return sorted((n.event_id, n.job_id, n.job_name, n.event_type,
                       n.start_timestamp, n.end_timestamp, n.parent_event_id,
                       n.application_name)
                      for n in s_.query(NodeModel).all())


def scale_store(n):
    kinds = sorted(KINDS)
    return [kinds[(k * 5) % len(kinds)] for k in range(n)]


def run_store(store, buf, batches=(1, 1000), base=0):
    traces = [t for k, kd in enumerate(store) for t in mk(kd, k, base)]
    spans = [s for t in traces for s in t]
    bad = []
    stats = {"dangling_removed": 0, "window_removed": 0, "renamed": 0,
             "nothing_removed": 0, "error_expected": 0}
    mn = min(s['start_timestamp'] for s in spans)
    mx = max(s['end_timestamp'] for s in spans)
    lo, hi = mn + buf * M, mx - buf * M
    ids = {s['event_id'] for s in spans}
    dang = {s['job_id'] for s in spans
            if s['parent_event_id'] and s['parent_event_id'] not in ids}
    surv = [t for t in traces if t[0]['job_id'] not in dang]
    experr = lo >= hi

    def inwin(t):
        return any(lo <= s['start_timestamp'] <= hi
                   or lo <= s['end_timestamp'] <= hi for s in t)
    surv2 = [t for t in surv if inwin(t)]
    if dang:
        stats["dangling_removed"] = 1
    if len(surv2) < len(surv) and not experr:
        stats["window_removed"] = 1
    if not experr and any(s['job_name'] == 'other' for t in surv2 for s in t):
        stats["renamed"] = 1
    if not dang and len(surv2) == len(traces) and not experr:
        stats["nothing_removed"] = 1
    if experr:
        stats["error_expected"] = 1
    n = 0
    for bs in batches:
        for oname, order in (("fwd", spans), ("rev", list(reversed(spans)))):
            n += 1
            h = impl_otel.new_holder(batch_size=bs, time_buffer=buf)
            try:
                impl_otel.ingest(h, order)
                try:
                    clean(h)
                    err = False
                except ValueError:
                    err = True
                if err != experr:
                    bad.append({"bs": bs, "order": oname,
                                "problem": ["time_buffer_error", err, experr]})
                    continue
                if err:
                    continue
                rows = rows_of(h)
                exp = sorted(
                    (s['event_id'], s['job_id'],
                     [x for x in t if x['parent_event_id'] is None][0]
                     ['job_name'], s['event_type'], s['start_timestamp'],
                     s['end_timestamp'], s['parent_event_id'],
                     s['application_name'])
                    for t in surv2 for s in t)
                if rows != exp:
                    bad.append({"bs": bs, "order": oname,
                                "problem": ["rows", [r[0] for r in rows][:40],
                                            [r[0] for r in exp][:40],
                                            [r for r in rows if r not in exp][:2],
                                            [r[0] for r in exp
                                             if r not in rows][:6]]})
                    continue
                # a parent stored under another trace id is not a call tree:
                # the sequencer (C08's subject, which presupposes a tree)
                # raises KeyError on it, with or without the removed traces;
                # for such stores the frame condition compares that outcome
                xl = any('X' in KINDS[kd][2] for kd in store)
                got = pvcanon_x(h) if xl else pvcanon(h)
                h2 = impl_otel.new_holder(batch_size=bs, time_buffer=buf)
                try:
                    impl_otel.ingest(h2, [s for t in surv2 for s in t])
                    # the window is a function of everything ingested: pin it
                    h2._min_timestamp, h2._max_timestamp = mn, mx
                    clean(h2)
                    ref = pvcanon_x(h2) if xl else pvcanon(h2)
                finally:
                    h2.engine.dispose()
                if ref != got:
                    bad.append({"bs": bs, "order": oname,
                                "problem": ["frame", sorted(got)[:40],
                                            sorted(ref)[:40]]})
            except Exception as e:
                bad.append({"bs": bs, "order": oname,
                            "problem": ["exception", type(e).__name__,
                                        str(e)[:160]]})
            finally:
                h.engine.dispose()
    return n, bad, stats


def handle(task):
    out = []
    n = 0
    agg = {}
    for nt, buf in task.get("scale", ()):
        k, bad, stats = run_store(scale_store(nt), buf, (1000,))
        n += k
        for b in bad:
            b["store"] = ["scale", nt]
            b["buf"] = buf
            out.append(b)
        agg["scale_runs"] = agg.get("scale_runs", 0) + k
    base = EPOCH_BASE if task.get("epoch") else 0
    for store, buf in task["cases"]:
        k, bad, stats = run_store(store, buf, base=base)
        n += k
        for s, v in stats.items():
            agg[s] = agg.get(s, 0) + v
        for b in bad:
            b["store"] = store
            b["buf"] = buf
            b["epoch"] = bool(base)
            out.append(b)
    if base:
        agg = {"epoch_runs": n}
    return {"n": n, "bad": out, "stats": agg}


def build(tier, ctx):
    T = 3 if tier == "quick" else 4
    bufs = (0, 1) if tier == "quick" else (0, 1, 2)
    cases = [(list(c), b) for r in range(1, T + 1)
             for c in itertools.combinations_with_replacement(sorted(KINDS), r)
             for b in bufs]
    chunk = 8 if tier == "quick" else 32
    # scale: more traces than the sizes at which SQL statements are usually
    # chunked; every kind many times over
    sizes = [(701, 1), (1001, 1), (1301, 0)]
    if tier == "thorough":
        sizes += [(1000, 1), (1801, 1), (1301, 2), (2001, 0)]
    return [{"scale": [sz], "cases": []} for sz in sizes] + \
        [{"cases": cases[i:i + chunk]}
         for i in range(0, len(cases), chunk)] + \
        [{"cases": cases[i:i + chunk], "epoch": True}
         for i in range(0, len(cases), chunk)]


def collect(tier, tasks, results, ctx):
    viol = []
    n = ncases = 0
    agg = {}
    for t, r in zip(tasks, results):
        n += r["n"]
        ncases += len(t["cases"])
        for s, v in r["stats"].items():
            agg[s] = agg.get(s, 0) + v
        for b in r["bad"]:
            viol.append({
                "key": input_key(["C11", b["store"], b["buf"], b["bs"],
                                  b["order"]] +
                                 (["epoch"] if b.get("epoch") else [])),
                "what": f"store={b['store']} time_buffer={b['buf']} "
                        f"batch={b['bs']} order={b['order']}: {b['problem']}",
                "input": dict({k: b[k] for k in ("store", "buf", "bs",
                                                  "order")},
                              epoch=bool(b.get("epoch"))),
                "observed": b["problem"]})
    he = None
    for s in ("dangling_removed", "window_removed", "renamed",
              "nothing_removed", "error_expected"):
        if not agg.get(s):
            he = f"vacuous: no store where '{s}' applies"
    nontrivial = agg.get("dangling_removed", 0) + agg.get("window_removed", 0)
    cov = {
        "states": ncases, "transitions": n,
        "traces_validated_against_impl": n,
        "evaluations": n, "distinct_nontrivial": nontrivial,
        "rule": "every multiset of traces over 16 trace kinds (inside / "
                "straddling / outside the window, dangling parent, foreign "
                "workflow name on a child; single span and root+child) up to "
                "the bound x time_buffer x 2 batch sizes x 2 ingestion "
                "orders; non-trivial = (store, buffer) pairs in which a "
                "cleaning step has to remove something",
        "samples": [{"store": tasks[-1]["cases"][0][0],
                     "time_buffer": tasks[-1]["cases"][0][1],
                     "kinds": {k: [v[0], v[1], v[2]] for k, v in KINDS.items()}}],
        "exhaustive": True,
        "bounds": {"tier": tier,
                   "traces": "<= 3" if tier == "quick" else "<= 4",
                   "time_buffer_min": [0, 1] if tier == "quick" else [0, 1, 2],
                   "time_base": "minutes from 0, and the same stores at "
                   "epoch magnitude (%d ns, not a multiple of 256)"
                   % EPOCH_BASE},
        "store_buffer_pairs": ncases, "pairs_where": agg,
        "states_meaning": "(store, time_buffer) pairs; transitions = "
                          "ingest+clean+stream executions on the real code",
    }
    return {"violations": viol, "coverage": cov, "harness_error": he,
            "assumptions": [
                "frame condition compares with a fresh store holding only "
                "the survivors with the ingestion min/max pinned to the full "
                "run's values (the window is by design a function of "
                "everything ingested)", "in-memory SQLite"]}


def replay(rec, ctx):
    i = rec["input"]
    if i["store"][:1] == ["scale"]:
        n, bad, _ = run_store(scale_store(i["store"][1]), i["buf"], (1000,))
    else:
        n, bad, _ = run_store(i["store"], i["buf"],
                              base=EPOCH_BASE if i.get("epoch") else 0)
    bad = [b for b in bad if b["bs"] == i["bs"] and b["order"] == i["order"]]
    return bool(bad), repr([b["problem"] for b in bad])[:300]
