"""C10 - ingestion stores each span once whatever the batching or duplication.

Model checking over all operation sequences up to a depth: alphabet
save(id, variant), id in {a,b,c}, variant in {1,2} (variant 2 differs in every
column including the parent link); x batch sizes 1..L+1 x every split of the
sequence into 1..3 ingestion runs (fresh SQLDataHolder + with-block on the same
file-backed database).  Oracle after every run: tables == first-occurrence
reference."""
import itertools
import os

from .. import impl_otel
from ..findings import input_key

ID = "C10"
LEVEL = "model_checking"
HANDLER = "mc.checks.c10:handle"
TIMEOUT = 600.0

PARENT = {('a', 1): None, ('a', 2): None, ('b', 1): 'a', ('b', 2): 'c',
          ('c', 1): 'a', ('c', 2): 'b',
          # 'd': a root whose parent id is the empty string (variant 1) /
          # a child of 'a' (variant 2)
          ('d', 1): '', ('d', 2): 'a'}
ALPH = [(i, v) for i in 'abc' for v in (1, 2)]


def span(i, v):
    return dict(job_name=f"n{v}", job_id=f"j{v}", event_type=f"t{i}{v}",
                event_id=i, start_timestamp=10 * v, end_timestamp=10 * v + 5,
                application_name=f"app{v}", parent_event_id=PARENT[(i, v)])


def row(i, v):
    return (i, f"t{i}{v}", f"n{v}", f"j{v}", 10 * v, 10 * v + 5, f"app{v}",
            PARENT[(i, v)] or None)


def splits(n, maxruns):
    for r in range(0, maxruns):
        for cuts in itertools.combinations(range(1, n), r):
            yield (0,) + cuts + (n,)


def reference(seq):
    first = {}
    for i, v in seq:
        first.setdefault(i, v)
    nodes = sorted(row(i, v) for i, v in first.items())
    assoc = sorted((PARENT[(i, v)], i) for i, v in first.items()
                   if PARENT[(i, v)])
    return nodes, assoc


def build(tier, ctx):
    tasks = []
    if tier == "quick":
        seqs = [s for ln in range(1, 5) for s in itertools.product(ALPH, repeat=ln)]
        for i in range(0, len(seqs), 8):
            tasks.append({"seqs": seqs[i:i + 8], "bs": "all", "maxruns": 3})
    else:
        seqs = [s for ln in range(1, 6) for s in itertools.product(ALPH, repeat=ln)]
        for i in range(0, len(seqs), 8):
            tasks.append({"seqs": seqs[i:i + 8], "bs": "all", "maxruns": 3})
        seqs6 = list(itertools.product(ALPH, repeat=6))
        for i in range(0, len(seqs6), 16):
            tasks.append({"seqs": seqs6[i:i + 16], "bs": [1, 2, 3, 7],
                          "maxruns": 2})
    # empty-string parent ids: stored as "no parent", no link
    alph_d = [('a', 1), ('b', 1), ('d', 1), ('d', 2)]
    seqs_d = [s for ln in range(1, 4 if tier == "quick" else 5)
              for s in itertools.product(alph_d, repeat=ln)
              if any(i == 'd' for i, _ in s)]
    for i in range(0, len(seqs_d), 8):
        tasks.append({"seqs": seqs_d[i:i + 8], "bs": "all", "maxruns": 2})
    # wave 15: near-equal span ids (must stay distinct ids)
    seqs3 = [s for ln in range(2, 4 if tier == "quick" else 5)
             for s in itertools.product(ALPH, repeat=ln)
             if len({i for i, _ in s}) > 1]
    for idm in ({"a": "x", "b": "X", "c": "x "},
                {"a": "7", "b": "07", "c": "7.0"},
                {"a": "\u00e9", "b": "e\u0301", "c": "e"}):
        for i in range(0, len(seqs3), 16):
            tasks.append({"seqs": seqs3[i:i + 16], "bs": "all", "maxruns": 2,
                          "ids": idm})
    # scale: batches around 999/1000 distinct ids, re-ingested (a second run
    # has to recognise every stored id)
    sizes = [(999, 1000), (1000, 1000), (1001, 1000), (1001, 2000),
             (2001, 1000), (1500, 5000)]
    if tier == "thorough":
        sizes += [(998, 999), (2000, 1000), (3001, 3001), (1999, 999)]
    for sz in sizes:
        tasks.append({"scale": [sz], "seqs": []})
    return tasks


_counters = {}


def _install_counters():
    SQLDataHolder, _, _ = impl_otel.imports()
    if getattr(SQLDataHolder, "_verif_wrapped", False):
        return
    orig = getattr(SQLDataHolder,
                   "check_and_filter_non_unique_nodes_and_associations", None)
    if orig is None:
        # the fallback was renamed/refactored: the counter is only a vacuity
        # guard, the verdict does not depend on it
        _counters["unavailable"] = 1
        SQLDataHolder._verif_wrapped = True
        return

    def wrapped(self):
        _counters["fallback"] = _counters.get("fallback", 0) + 1
        return orig(self)
    SQLDataHolder.check_and_filter_non_unique_nodes_and_associations = wrapped
    SQLDataHolder._verif_wrapped = True


def run_case(seq, bs, cuts, db):
    """returns list of problems; checks the tables after every run"""
    problems = []
    states = []
    for a, b in zip(cuts, cuts[1:]):
        h = impl_otel.new_holder(f"sqlite:///{db}", batch_size=bs)
        try:
            impl_otel.ingest(h, [span(i, v) for i, v in seq[a:b]])
        except Exception as e:
            problems.append(["exception", type(e).__name__, str(e)[:200], b])
            h.engine.dispose()
            break
        if getattr(h, "node_models_to_save", None) or \
                getattr(h, "node_relationships_to_save", None):
            problems.append(["pending_after_exit", b])
        got = impl_otel.dump_nodes(h)
        h.engine.dispose()
        states.append(got)
        exp = reference(seq[:b])
        if got != exp:
            problems.append(["tables_differ", b, [list(map(list, got[0])),
                                                  list(map(list, got[1]))]])
            break
    if os.path.exists(db):
        os.remove(db)
    return problems, states


def dup_classes(seq, bs, cuts):
    """where do duplicates sit relative to their first occurrence"""
    out = set()
    first = {}
    run_of, batch_of = {}, {}
    for r, (a, b) in enumerate(zip(cuts, cuts[1:])):
        for p in range(a, b):
            run_of[p] = r
            batch_of[p] = (r, (p - a) // bs)
    for p, (i, v) in enumerate(seq):
        if i in first:
            q = first[i]
            if run_of[p] != run_of[q]:
                out.add("across_runs")
            elif batch_of[p] != batch_of[q]:
                out.add("across_batches")
            else:
                out.add("inside_batch")
        else:
            first[i] = p
    return out


def run_scale(n, bs):
    """n distinct spans (chain of parents) ingested twice into one file-backed
    store: around the classic SQLite bound-variable limits (999 / 1000)"""
    d = impl_otel.scratch_dir()
    db = os.path.join(d, "x.db")
    spans = [dict(job_name="n", job_id=f"j{i // 4}", event_type="t",
                  event_id=f"s{i}", start_timestamp=i, end_timestamp=i + 1,
                  application_name="a",
                  parent_event_id=None if i % 4 == 0 else f"s{i - 1}")
             for i in range(n)]
    exp_nodes = sorted((s["event_id"], "t", "n", s["job_id"],
                        s["start_timestamp"], s["end_timestamp"], "a",
                        s["parent_event_id"]) for s in spans)
    exp_assoc = sorted((s["parent_event_id"], s["event_id"]) for s in spans
                       if s["parent_event_id"])
    problems = []
    try:
        for run in (1, 2):
            h = impl_otel.new_holder(f"sqlite:///{db}", batch_size=bs)
            try:
                impl_otel.ingest(h, spans)
            except Exception as e:
                problems.append(["exception", type(e).__name__,
                                 str(e)[:160], run])
                h.engine.dispose()
                break
            got = impl_otel.dump_nodes(h)
            h.engine.dispose()
            if got != (exp_nodes, exp_assoc):
                problems.append(["tables_differ", run, len(got[0]),
                                 len(got[1])])
                break
    finally:
        if os.path.exists(db):
            os.remove(db)
        os.rmdir(d)
    return problems


def ensure_ids(idm):
    """span ids spelled so that they are equal up to case, a trailing blank,
    a leading zero or accent composition: still distinct ids"""
    if idm:
        for (i, v), par in list(PARENT.items()):
            PARENT[(idm.get(i, i), v)] = idm.get(par, par) if par else par


def handle(task):
    if task.get("scale"):
        bad = []
        for n, bs in task["scale"]:
            p = run_scale(n, bs)
            if p:
                bad.append({"seq": f"{n} distinct spans ingested twice",
                            "bs": bs, "cuts": [0, n, 2 * n], "problems": p,
                            "scale": [n, bs]})
        return {"n": len(task["scale"]), "transitions": sum(
            2 * n for n, _ in task["scale"]), "bad": bad, "states": [],
            "classes": {}, "fallback": 0, "scale_runs": len(task["scale"])}
    _install_counters()
    _counters.clear()
    d = impl_otel.scratch_dir()
    db = os.path.join(d, "x.db")
    bad = []
    n = 0
    trans = 0
    distinct_states = set()
    classes = {}
    idm = task.get("ids")
    ensure_ids(idm)
    for seq in task["seqs"]:
        seq = [tuple(x) for x in seq]
        if idm:
            seq = [(idm.get(i, i), v) for i, v in seq]
        bss = range(1, len(seq) + 2) if task["bs"] == "all" else task["bs"]
        for bs in bss:
            for cuts in splits(len(seq), task["maxruns"]):
                n += 1
                trans += len(seq)
                problems, states = run_case(seq, bs, cuts, db)
                for s in states:
                    distinct_states.add(repr(s))
                for c in dup_classes(seq, bs, cuts):
                    classes[c] = classes.get(c, 0) + 1
                if problems:
                    bad.append({"seq": seq, "bs": bs, "cuts": cuts,
                                "problems": problems, "ids": idm})
    try:
        os.rmdir(d)
    except OSError:
        pass
    return {"n": n, "transitions": trans, "bad": bad,
            "states": sorted(distinct_states), "classes": classes,
            "fallback": _counters.get("fallback", 0) +
            _counters.get("unavailable", 0)}


def collect(tier, tasks, results, ctx):
    viol = []
    n = trans = fallback = 0
    states = set()
    classes = {}
    nseq = 0
    nontrivial = 0
    for t, r in zip(tasks, results):
        n += r["n"]
        trans += r["transitions"]
        fallback += r["fallback"]
        states.update(r["states"])
        for c, k in r["classes"].items():
            classes[c] = classes.get(c, 0) + k
        for s in t["seqs"]:
            nseq += 1
            if len({i for i, v in s}) < len(s):
                nontrivial += 1
        for b in r["bad"]:
            ensure_ids(b.get("ids"))
            viol.append({
                "key": input_key(["C10", b["seq"], b["bs"], b["cuts"]]),
                "what": f"seq={b['seq']} batch={b['bs']} runs={b['cuts']}: "
                        f"{b['problems'][0][:2]}",
                "input": {"seq": b["seq"], "bs": b["bs"], "cuts": b["cuts"],
                          "scale": b.get("scale"), "ids": b.get("ids")},
                "observed": b["problems"],
                "expected": None if b.get("scale") else
                reference([tuple(x) for x in b["seq"]])})
    he = None
    for c in ("inside_batch", "across_batches", "across_runs"):
        if not classes.get(c):
            he = f"vacuous: no duplicate placed {c}"
    if fallback == 0:
        he = "vacuous: integrity-error fallback never taken"
    cov = {
        "states": len(states), "transitions": trans,
        "traces_validated_against_impl": n,
        "evaluations": n, "distinct_nontrivial": nontrivial,
        "rule": "every sequence of save(id,variant) operations over 3 ids x 2 "
                "variants up to the length bound x batch sizes x splits into "
                "ingestion runs; non-trivial = distinct sequences containing "
                "at least one duplicate id",
        "samples": [{"seq": [t for t in tasks if t["seqs"]][-1]["seqs"][-1],
                     "batch_sizes": "1..L+1",
                     "runs": "all splits into <= 3 runs"}],
        "exhaustive": True,
        "bounds": {"tier": tier,
                   "length": "<= 4" if tier == "quick" else
                   "<= 5 in full; 6 with batch sizes {1,2,3,7} and <= 2 runs",
                   "batch_sizes": "1..L+1", "runs": "1..3"},
        "sequences": nseq, "duplicate_placements": classes,
        "integrity_fallbacks_taken": fallback,
        "scale_runs_around_999_1000_ids": sum(
            r.get("scale_runs", 0) for r in results),
        "states_meaning": "distinct table contents (nodes, NODE_ASSOCIATION) "
                          "observed after an ingestion run; transitions = "
                          "save_data operations executed by the real code",
    }
    return {"violations": viol, "coverage": cov, "harness_error": he,
            "assumptions": ["SQLite as shipped with /venv's Python; "
                            "file-backed database under /dev/shm",
                            "reference = dict of first occurrence per span id"]}


def replay(rec, ctx):
    i = rec["input"]
    if i.get("scale"):
        p = run_scale(*i["scale"])
        return bool(p), repr(p)[:300]
    ensure_ids(i.get("ids"))
    d = impl_otel.scratch_dir()
    problems, _ = run_case([tuple(x) for x in i["seq"]], i["bs"],
                           tuple(i["cuts"]), os.path.join(d, "x.db"))
    os.rmdir(d)
    return bool(problems), repr(problems)[:300]
