"""C15 - re-running against a persisted store is repeatable.

Model checking: breadth-first search over run histories.  State = dump of the
SQLite file (every table, rows in rowid order); alphabet = flag combinations of
`python -m tel2puml otel2pv` ({ingest,-ni} x {-ug,} x {-se,}) and of
`otel2puml` ({ingest,-ni} x {-ug,}); transition = one real subprocess run on
the shared db_uri; de-duplication on the state (a separate process has no
other memory; inputs and config are fixed)."""
import hashlib
import json
import os
import shutil
import sqlite3
import subprocess
import sys
import threading
from concurrent.futures import ThreadPoolExecutor

from .. import impl_otel, pool
from ..findings import input_key

ID = "C15"
LEVEL = "model_checking"
VERIF = os.path.dirname(os.path.dirname(os.path.dirname(
    os.path.abspath(__file__))))

FIELDS = ("job_name", "job_id", "event_type", "event_id", "start_timestamp",
          "end_timestamp", "application_name", "parent_event_id")

# data sets: list of traces; trace = (job_name, [(type, parent index), ...])
DATASETS = {
    "distinct": [("alpha", [("r", None), ("a", 0)]),
                 ("alpha", [("r", None), ("a", 0), ("b", 0)]),
                 ("beta", [("r", None), ("b", 0), ("c", 1)])],
    "repeated": [("alpha", [("r", None), ("a", 0), ("b", 0)]),
                 ("alpha", [("r", None), ("b", 0), ("a", 0)]),
                 ("alpha", [("r", None), ("a", 0)]),
                 ("beta", [("r", None), ("a", 0)]),
                 ("beta", [("r", None), ("a", 0)])],
}
# a store that cleaning has to touch: one trace references a missing parent
# (two of the broken traces have a proper root whose reachable part has the
# shape of a consistent trace: one stored before it, one after it)
DATASETS["dirty"] = [("alpha", [("r", None), ("b", 0), ("z", "MISSING")]),
                     ("alpha", [("r", None), ("a", 0)]),
                     ("alpha", [("r", None), ("b", 0)]),
                     ("alpha", [("x", "MISSING"), ("y", 0)]),
                     ("alpha", [("r", None), ("a", 0), ("z", "MISSING")]),
                     ("beta", [("r", None), ("a", 0), ("b", 1)]),
                     # wave 13: a broken trace from a later record that repeats
                     # a span id of an earlier, surviving trace (different
                     # content; the first occurrence wins) and hangs a child
                     # below that id: a parent/child link across the trace that
                     # stays and the trace that cleaning removes
                     ("alpha", [("x", "MISSING"), ("q", None, "t1s1"),
                                ("c", "t1s1")])]
# time_buffer = 1 minute: anchors at minute 0 and 5 fix the window [1, 4];
# offsets are (start, end) in minutes per span, default derived from k, i
DATASETS["buffered"] = [("zz", [("z", None)]),
                        ("alpha", [("r", None), ("a", 0)]),
                        ("alpha", [("r", None), ("a", 0), ("b", 0)]),
                        ("alpha", [("r", None), ("b", 0)]),
                        ("zz", [("z", None)]),
                        ("alpha", [("r", None), ("c", 0)]),
                        ("alpha", [("r", None), ("c", 0), ("c", 0)])]
BUFFERED_TIMES = {0: [(0.0, 0.01)],
                  1: [(2.0, 3.0), (2.2, 2.8)],
                  2: [(0.5, 2.0), (0.6, 0.8), (0.7, 0.9)],   # root ends inside
                  3: [(3.0, 4.5), (4.1, 4.4)],               # root starts inside
                  4: [(4.99, 5.0)],
                  # just inside the window [1, 4]: would fall outside a window
                  # re-derived from the surviving spans only
                  5: [(1.05, 1.3), (1.1, 1.2)],
                  6: [(3.7, 3.95), (3.75, 3.8), (3.85, 3.9)]}
TIME_BUFFER = {"buffered": 1}
# more distinct span ids than one default-size batch (1000): a re-ingest has
# to recognise every stored id
DATASETS["large"] = [("alpha" if k % 3 else "beta",
                      [("r", None), ("a", 0), ("b", 1), ("c", 0)])
                     for k in range(262)]
# a single default-size batch of 700 ids: neither below nor a multiple of the
# sizes (500, 900, 999) at which id look-ups are commonly chunked
DATASETS["medium"] = DATASETS["large"][:175]
BATCH_SIZE = {"large": 1000, "medium": 1000}
ACTIONS_PV = [(ni, ug, se) for ni in (False, True) for ug in (False, True)
              for se in (False, True)]


def spans_of_dataset(ds):
    out = []
    # epoch magnitude, not a multiple of 256 ns (spacing of doubles there)
    t = 1_700_000_000 * 10 ** 9 + 123_456_789
    for k, (name, nodes) in enumerate(DATASETS[ds]):
        for i, node in enumerate(nodes):
            typ, par = node[:2]
            if ds == "buffered":
                st, en = BUFFERED_TIMES[k][i]
                out.append({
                    "job_name": name, "job_id": f"trace{k}",
                    "event_type": typ, "event_id": f"t{k}s{i}",
                    "start_timestamp": str(t + int(st * 60 * 10 ** 9)),
                    "end_timestamp": str(t + int(en * 60 * 10 ** 9)),
                    "application_name": f"app{k}",
                    "parent_event_id": None if par is None else f"t{k}s{par}"})
                continue
            out.append({
                "job_name": name, "job_id": f"trace{k}", "event_type": typ,
                "event_id": node[2] if len(node) > 2 else f"t{k}s{i}",
                "start_timestamp": str(t + (k * 100 + i * 10) * 10 ** 6),
                "end_timestamp": str(t + (k * 100 + 90 - i * 10) * 10 ** 6),
                "application_name": f"app{k}",
                "parent_event_id": None if par is None else
                (f"t{k}missing" if par == "MISSING" else
                 par if isinstance(par, str) else f"t{k}s{par}")})
    return out


def write_inputs(root, ds):
    os.makedirs(os.path.join(root, "in"), exist_ok=True)
    with open(os.path.join(root, "in", "data.json"), "w") as f:
        json.dump({"spans": spans_of_dataset(ds)}, f)
    fm = "\n".join(
        f"      {fld}:\n        key_paths: [\"spans.[].{fld}\"]\n"
        f"        value_type: string" for fld in FIELDS)
    cfg = f"""ingest_data:
  data_source: json
  data_holder: sql
data_holders:
  sql:
    db_uri: "sqlite:///{root}/store.db"
    batch_size: {BATCH_SIZE.get(ds, 2)}
    time_buffer: {TIME_BUFFER.get(ds, 0)}
data_sources:
  json:
    dirpath: {root}/in
    filepath: null
    json_per_line: false
    field_mapping:
{fm}
"""
    with open(os.path.join(root, "cfg.yaml"), "w") as f:
        f.write(cfg)


def dump_db(path):
    if not os.path.exists(path):
        return "NOFILE"
    con = sqlite3.connect(path)
    try:
        tabs = [r[0] for r in con.execute(
            "select name from sqlite_master where type='table' order by name")]
        out = []
        for t in tabs:
            rows = con.execute(f'select * from "{t}" order by rowid').fetchall()
            out.append((t, rows))
        return json.dumps(out, default=str)
    finally:
        con.close()


def canon_saved(outdir):
    """saved PV sequences: {job name dir: sorted canonical jobs}"""
    res = {}
    if not os.path.isdir(outdir):
        return res
    for d in sorted(os.listdir(outdir)):
        p = os.path.join(outdir, d)
        if not os.path.isdir(p):
            continue
        jobs = []
        for fn in sorted(os.listdir(p)):
            with open(os.path.join(p, fn)) as f:
                evs = json.load(f)
            jobs.append(sorted(
                (e["eventId"], e["eventType"], e["jobId"], e["jobName"],
                 e["timestamp"], e["applicationName"],
                 tuple(sorted(e.get("previousEventIds", []))))
                for e in evs))
        res[d] = sorted(jobs)
    return res


def shape_of(job):
    """id-free canonical form of one saved PV job"""
    typ = {e[0]: e[1] for e in job}
    memo = {}
    prev = {e[0]: e[6] for e in job}

    def h(i):
        if i not in memo:
            memo[i] = (typ[i], tuple(sorted(h(p) for p in prev[i])))
        return memo[i]
    return tuple(sorted(h(i) for i in typ))


def is_broken(nodes):
    return any(n[1] == "MISSING" for n in nodes)


def tree_shape(ds, job_id):
    k = int(job_id[len("trace"):])
    name, nodes = DATASETS[ds][k]

    def canon(i):
        return (nodes[i][0], tuple(sorted(canon(c) for c in range(len(nodes))
                                          if nodes[c][1] == i)))
    return canon(0)


def pumls(outdir):
    res = {}
    if not os.path.isdir(outdir):
        return res
    for fn in sorted(os.listdir(outdir)):
        if fn.endswith(".puml"):
            with open(os.path.join(outdir, fn)) as f:
                res[fn] = f.read()
    return res


def run_process(root, command, ni, ug, se):
    outdir = os.path.join(root, "out")
    shutil.rmtree(outdir, ignore_errors=True)
    args = [sys.executable, "-m", "tel2puml", "-o", outdir, command, "-c",
            os.path.join(root, "cfg.yaml")]
    if ni:
        args.append("-ni")
    if ug:
        args.append("-ug")
    if se and command == "otel2pv":
        args.append("-se")
    env = dict(os.environ)
    env["PYTHONPATH"] = os.pathsep.join(
        [os.path.join(VERIF, "shim"), os.environ.get("VERIF_REPO", "/repo")])
    env["TQDM_DISABLE"] = "1"
    env["PYTHONDONTWRITEBYTECODE"] = "1"
    r = subprocess.run(args, env=env, capture_output=True, text=True,
                       timeout=600, cwd=root)
    return r.returncode, (r.stdout + r.stderr)[-1500:]


def transition(base, ds, state_db, command, ni, ug, se, keep_dir):
    """run one process from the given state; returns observation dict"""
    root = impl_otel.scratch_dir()
    try:
        write_inputs(root, ds)
        if state_db is not None:
            shutil.copy(state_db, os.path.join(root, "store.db"))
        rc, tail = run_process(root, command, ni, ug, se)
        dump = dump_db(os.path.join(root, "store.db"))
        h = hashlib.sha1(dump.encode()).hexdigest()
        dst = os.path.join(keep_dir, h + ".db")
        if not os.path.exists(dst) and os.path.exists(
                os.path.join(root, "store.db")):
            shutil.copy(os.path.join(root, "store.db"), dst + ".tmp%d" %
                        threading.get_ident())
            os.replace(dst + ".tmp%d" % threading.get_ident(), dst)
        obs = {"rc": rc, "tail": tail, "state": h,
               "saved": canon_saved(os.path.join(root, "out")),
               "puml": pumls(os.path.join(root, "out"))}
        return obs
    finally:
        shutil.rmtree(root, ignore_errors=True)


def fingerprint_puml(text):
    from . import pvcommon
    return pvcommon.fingerprint(text)


def judge(ds, obs, ref_full, ref_obs, command, ni, ug, se, from_empty):
    """ref_full: reference saved jobs of a fresh `ingest -se` run;
    ref_obs: observation of the fresh first run with the same effective
    flags"""
    if obs["rc"] != 0:
        return ["exit_status", obs["rc"], obs["tail"][-400:]]
    if command == "otel2pv":
        if not se:
            return None
        if ni and from_empty:
            if any(obs["saved"].values()):
                return ["output_from_empty_store", obs["saved"]]
            return None
        if not ug:
            if obs["saved"] != ref_full:
                return ["sequences_differ", obs["saved"], ref_full]
        else:
            # one stored trace per distinct call-tree shape (sibling order,
            # ids and times ignored) and workflow name
            got = {}
            for k, v in obs["saved"].items():
                for j in v:
                    if j not in ref_full.get(k, []):
                        return ["selected_trace_not_a_stored_trace", k]
                    got.setdefault(k, []).append(tree_shape(ds, j[0][2]))
            want = {}
            for k, (name, nodes) in enumerate(DATASETS[ds]):
                if not is_broken(nodes) and name != "zz":
                    want.setdefault(name, set()).add(
                        tree_shape(ds, f"trace{k}"))
            if {k: sorted(v) for k, v in got.items()} != \
                    {k: sorted(v) for k, v in want.items()}:
                return ["selected_shapes_differ",
                        {k: len(v) for k, v in got.items()},
                        {k: len(v) for k, v in want.items()}]
    else:
        if ni and from_empty:
            return None
        want = {k: fingerprint_puml(v) for k, v in ref_obs["puml"].items()}
        got = {k: fingerprint_puml(v) for k, v in obs["puml"].items()}
        if got != want:
            return ["diagrams_differ", sorted(got), sorted(want)]
    return None


def explore(tier, ctx, progress):
    pool.worker_setup()
    depth = 3 if tier == "quick" else 4
    datasets = ["repeated", "dirty", "buffered", "large", "medium"] \
        if tier == "quick" else \
        ["repeated", "dirty", "buffered", "large", "medium", "distinct"]
    commands = ["otel2pv"] if tier == "quick" else ["otel2pv", "otel2puml"]
    keep = impl_otel.scratch_dir()
    viol = []
    total_states = 0
    total_trans = 0
    samples = []
    validated = 0
    nw = pool.NCPU
    try:
        with ThreadPoolExecutor(max_workers=nw) as ex:
            for ds in datasets:
                for command in commands:
                    acts = ACTIONS_PV if command == "otel2pv" else \
                        [(ni, ug, False) for ni in (False, True)
                         for ug in (False, True)]
                    # references: fresh first runs
                    futs = {a: ex.submit(transition, keep, ds, None, command,
                                         False, a[1], True if command ==
                                         "otel2pv" else False, keep)
                            for a in [(False, False, True),
                                      (False, True, True)]}
                    ref = {a: f.result() for a, f in futs.items()}
                    for a, o in ref.items():
                        if o["rc"] != 0:
                            raise pool.HarnessError(
                                f"reference first run failed ({command} "
                                f"{a}): {o['tail'][-600:]}")
                    if command == "otel2pv":
                        ref_full = ref[(False, False, True)]["saved"]
                        if not ref_full:
                            raise pool.HarnessError("reference saved nothing")
                    else:
                        ref_full = None
                    # BFS
                    seen = {"NOFILE": None}      # state hash -> db path
                    hist = {"NOFILE": []}
                    frontier = ["NOFILE"]
                    sa_outcome = {}
                    for level in range(depth):
                        jobs = []
                        for st in frontier:
                            for a in acts:
                                jobs.append((st, a, ex.submit(
                                    transition, keep, ds, seen[st], command,
                                    a[0], a[1], a[2], keep)))
                        nxt = []
                        for st, a, f in jobs:
                            obs = f.result()
                            total_trans += 1
                            from_empty = st == "NOFILE" or _is_empty(seen[st])
                            prob = judge(ds, obs, ref_full,
                                         ref[(False, a[1], True)], command,
                                         a[0], a[1], a[2], from_empty)
                            sa_outcome[(st, a)] = (obs["state"], obs["rc"],
                                                   json.dumps(obs["saved"],
                                                              sort_keys=True))
                            h = hist[st] + [flags(command, a)]
                            if len(samples) < 3 and level == 2:
                                samples.append({"dataset": ds, "history": h,
                                                "exit": obs["rc"]})
                            if prob:
                                viol.append({
                                    "key": input_key(["C15", ds, command, h,
                                                      prob[0]]),
                                    "what": f"dataset={ds} history={h}: "
                                            f"{str(prob)[:400]}",
                                    "input": {"dataset": ds,
                                              "command": command,
                                              "history": h},
                                    "observed": prob})
                            if obs["state"] not in seen:
                                seen[obs["state"]] = os.path.join(
                                    keep, obs["state"] + ".db")
                                hist[obs["state"]] = h
                                nxt.append(obs["state"])
                        progress(total_trans, total_trans)
                        frontier = nxt
                        if not frontier:
                            break
                    total_states += len(seen)
                    # validation of the state abstraction: histories replayed
                    # without de-duplication must agree with the outcome the
                    # search assigned to (state, action)
                    if tier == "thorough" and command == "otel2pv" \
                            and ds == "repeated":
                        validated += validate_abstraction(
                            ex, keep, ds, command, acts, sa_outcome, viol)
    finally:
        shutil.rmtree(keep, ignore_errors=True)
    cov = {
        "states": total_states, "transitions": total_trans,
        "traces_validated_against_impl": total_trans + validated,
        "evaluations": total_trans + validated,
        "distinct_nontrivial": total_states,
        "rule": "breadth-first search over histories of separate CLI "
                "processes sharing one SQLite file; state = full dump of the "
                "database; every (state, flag set) pair is executed once; "
                "distinct_nontrivial = distinct database states reached",
        "samples": samples or [{"note": "depth < 3"}],
        "exhaustive": True,
        "bounds": {"tier": tier, "history_length": depth,
                   "datasets": datasets, "commands": commands,
                   "flags": "{ingest,-ni} x {-ug,} x {-se,}"},
        "histories_replayed_without_dedup": validated,
    }
    he = None
    if total_states < 3:
        he = "vacuous: fewer than 3 database states reached"
    return {"violations": viol, "coverage": cov, "harness_error": he,
            "tasks": list(range(total_trans)),
            "assumptions": ["each run is a separate `python -m tel2puml` "
                            "process; SQLite file under /dev/shm",
                            "with -ug the representative of a shape is not "
                            "constrained, only the set of shapes and that "
                            "each selected trace is a stored trace"]}


def flags(command, a):
    s = [command]
    if a[0]:
        s.append("-ni")
    if a[1]:
        s.append("-ug")
    if a[2]:
        s.append("-se")
    return " ".join(s)


def _is_empty(db):
    if db is None or not os.path.exists(db):
        return True
    con = sqlite3.connect(db)
    try:
        return con.execute("select count(*) from nodes").fetchone()[0] == 0
    except sqlite3.Error:
        return True
    finally:
        con.close()


def validate_abstraction(ex, keep, ds, command, acts, sa_outcome, viol):
    """all histories of length <= 3 executed step by step without state
    de-duplication (each history keeps its own database)"""
    import itertools
    n = 0

    def run_hist(hs):
        root = impl_otel.scratch_dir()
        outs = []
        try:
            write_inputs(root, ds)
            st = "NOFILE"
            for a in hs:
                rc, tail = run_process(root, command, a[0], a[1], a[2])
                dump = dump_db(os.path.join(root, "store.db"))
                h = hashlib.sha1(dump.encode()).hexdigest()
                saved = json.dumps(canon_saved(os.path.join(root, "out")),
                                   sort_keys=True)
                outs.append((st, a, (h, rc, saved)))
                st = h
        finally:
            shutil.rmtree(root, ignore_errors=True)
        return outs
    hists = [hs for ln in (3,) for hs in itertools.product(acts, repeat=ln)]
    for outs in ex.map(run_hist, hists):
        n += 1
        for st, a, o in outs:
            exp = sa_outcome.get((st, a))
            if exp is not None and exp != o:
                viol.append({
                    "key": input_key(["C15", "abstraction", st, list(a)]),
                    "what": f"state abstraction unsound at state {st[:8]} "
                            f"action {a}: {o[:2]} vs {exp[:2]}",
                    "input": {"state": st, "action": list(a)},
                    "observed": list(o[:2])})
    return n


def replay(rec, ctx):
    i = rec["input"]
    if "history" not in i:
        return True, "state-abstraction case: re-run the thorough check"
    root = impl_otel.scratch_dir()
    try:
        write_inputs(root, i["dataset"])
        last = None
        for step in i["history"]:
            parts = step.split()
            rc, tail = run_process(root, parts[0], "-ni" in parts,
                                   "-ug" in parts, "-se" in parts)
            last = (rc, tail)
        kind = rec["observed"][0]
        if kind == "exit_status":
            return last[0] != 0, f"exit {last[0]}: {last[1][-300:]}"
        return True, "output difference: re-run the check for the full oracle"
    finally:
        shutil.rmtree(root, ignore_errors=True)
