"""One worker task type for C01 / C02 / C05: (definition, presentations) ->
run the real pv_to_puml_string and apply the requested oracle."""
from .. import dsl, semantics
from ..findings import input_key
from . import pvcommon

PRES = {
    "canonical": {},
    "reversed": {"jobs": "reversed", "events": "reversed"},
    "rotated": {"jobs": "rotated"},
}
C02_CAP = 20000
FAMILY = {"F": "F", "F+": "multi-start", "K": "skeleton",
          "FB": "bunched-fork", "FS": "staged-merge", "FL": "lead-loop",
          "FK": "loop-on-break-path", "FD": "kill-in-loop",
          "FX": "stretched", "FE": "silent-break",
          "FT": "sibling-breaks", "FW": "wide-fork"}


def handle(task):
    if task["mode"] == "c01sub":
        return handle_subsets(task)
    defn = dsl.to_tuple(task["defn"])
    k = task.get("k", 2)
    mode = task["mode"]
    st = semantics.Stats()
    jobs = semantics.executions(defn, k, st)
    if task.get("names"):
        # realistic event names (blanks, dots, slashes, digits, brackets)
        nm = task["names"]
        jobs = [[(i, nm.get(t, t), ps) for i, t, ps in j] for j in jobs]
    types = sorted({t for j in jobs for _, t, _ in j})
    runs = []
    from .. import present, impl_pv
    for pname in task["pres"]:
        if pname == "bulk":
            # 1201 jobs, the last job of the set occurring once, just past
            # the thousandth position
            pv = present.present(jobs, {"bulk": [1201, len(jobs) - 1, 1000]})
        else:
            pv = present.present(jobs, PRES[pname])
        # schedule diversity at no extra cost: the reversed presentation also
        # runs under the reversed hash-rank order of created objects
        pi = task.get("pi") or ("rev" if pname == "reversed" else None)
        res = impl_pv.run_pipeline(pv, task.get("puml", "x"), pi)
        run = {"pres": pname, "status": res["status"], "exc": res.get("exc"),
               "text": res.get("text"), "problems": []}
        if res["status"] != "ok":
            run["problems"].append(["exc", res["exc"]])
            runs.append(run)
            continue
        text = res["text"]
        if mode == "c05":
            run["problems"] += c05_oracle(text, types,
                                          task.get("puml", "x"))
            runs.append(run)
            continue
        ast, err = pvcommon.parse_output(text)
        if ast is None:
            run["problems"].append(["unparseable", err])
            runs.append(run)
            continue
        if mode == "c01":
            rej = []
            for ji, j in enumerate(jobs):
                try:
                    if not semantics.accepts(ast, j, st):
                        rej.append(ji)
                except semantics.TooMany:
                    run["problems"].append(["search_budget", ji])
            if rej:
                run["problems"].append(
                    ["reject", [job_str(jobs[i]) for i in rej[:3]], len(rej)])
        elif mode == "c02":
            try:
                out_jobs = semantics.executions(ast, 2, st, cap=C02_CAP)
            except semantics.TooMany:
                run["capped"] = True
                out_jobs = []
            out_jobs = semantics.dedupe(out_jobs)
            run["out_jobs"] = len(out_jobs)
            extra = []
            for j in out_jobs:
                if not semantics.accepts(defn, j, st):
                    extra.append(j)
            if extra:
                extra.sort(key=len)
                run["problems"].append(
                    ["extra", [job_str(j) for j in extra[:3]], len(extra)])
        runs.append(run)
    return {"runs": runs, "jobs": len(jobs), "states": st.states,
            "transitions": st.transitions, "types": types}


def handle_subsets(task):
    """C01 on incomplete evidence: every listed subset of J_k(D) is learned
    from on its own; each of its jobs must be accepted"""
    from .. import present, impl_pv
    defn = dsl.to_tuple(task["defn"])
    st = semantics.Stats()
    jobs = semantics.executions(defn, task.get("k", 2), st)
    bad = []
    n = 0
    for sub in task["subsets"]:
        n += 1
        sel = [jobs[i] for i in sub]
        pv = present.present(sel, {})
        res = impl_pv.run_pipeline(pv, "x", None)
        prob = None
        if res["status"] != "ok":
            prob = ["exc", res["exc"]]
        else:
            ast, err = pvcommon.parse_output(res["text"])
            if ast is None:
                prob = ["unparseable", err]
            else:
                rej = [i for i, j in zip(sub, sel)
                       if not semantics.accepts(ast, j, st)]
                if rej:
                    prob = ["reject", [job_str(jobs[i]) for i in rej[:3]],
                            len(rej)]
        if prob:
            bad.append({"subset": list(sub), "problem": prob,
                        "text": res.get("text")})
    return {"subsets": True, "n": n, "bad": bad, "jobs": len(jobs),
            "states": st.states, "transitions": st.transitions}


def job_str(job):
    return " ".join(f"{i}:{t}<{','.join(map(str, ps))}" for i, t, ps in job)


def c05_oracle(text, types, puml="x"):
    problems = []
    try:
        ast, info = dsl.strict_parse(text, input_types=set(types))
    except dsl.Bad as e:
        return [["malformed", str(e)]]
    if info["name"] != puml:
        problems.append(["name", info["name"]])
    names = set(info["events"])
    if names != set(types):
        problems.append(["names", sorted(set(types) - names),
                         sorted(names - set(types))])
    return problems


def kind_of(problem):
    k = problem[0]
    if k == "exc":
        return "exc"
    return k


def collect_generic(pid, tier, tasks, results, bounds, rule, level,
                    nontrivial_rule=None):
    """shared collect for c01/c02/c05"""
    viol = []
    states = trans = traces = evals = 0
    outcomes = {}
    construct_counts = {}
    nontrivial = set()
    samples = []
    capped = []
    skipped_unparseable = 0
    subset_runs = 0
    texts = set()
    families = {}
    for t, r in zip(tasks, results):
        defn = dsl.to_tuple(t["defn"])
        fam = t.get("name", "F")
        fam = (FAMILY.get(fam, "corpus") +
               ("/subsets" if t["mode"] == "c01sub" else "") +
               ("/k3" if t.get("k", 2) == 3 else "") +
               ("/names" if t.get("names") else ""))
        families[fam] = families.get(fam, 0) + 1
        if r.get("_error") == "timeout":
            viol.append({"key": input_key([t["defn"], "timeout"]),
                         "what": f"{dsl.show(defn)}: pipeline did not "
                                 "terminate within the watchdog limit",
                         "input": t, "observed": "timeout"})
            outcomes["timeout"] = outcomes.get("timeout", 0) + 1
            continue
        states += r["states"]
        trans += r["transitions"]
        if r.get("subsets"):
            evals += r["n"]
            traces += r["n"]
            subset_runs += r["n"]
            for b in r["bad"]:
                kd = kind_of(b["problem"])
                outcomes["subset_" + kd] = outcomes.get("subset_" + kd, 0) + 1
                viol.append({
                    "key": input_key([t["defn"], kd, "subset", b["subset"]]),
                    "what": f"{t.get('name', 'F')} {dsl.show(defn)} learned "
                            f"from the job subset {b['subset']} of "
                            f"{r['jobs']}: {kd}: {str(b['problem'][1:])[:160]}",
                    "input": {"name": t.get("name"), "defn": t["defn"],
                              "k": t.get("k", 2), "mode": "c01sub",
                              "subsets": [b["subset"]]},
                    "observed": {"problem": b["problem"],
                                 "text": b.get("text")}})
            continue
        tags = dsl.constructs(defn)
        for tg in tags:
            construct_counts[tg] = construct_counts.get(tg, 0) + 1
        if tags:
            nontrivial.add(input_key(t["defn"]))
        for run in r["runs"]:
            evals += 1
            traces += r["jobs"]
            if run.get("text"):
                texts.add(run["text"])
            if run.get("capped"):
                capped.append(dsl.show(defn))
            probs = run["problems"]
            if pid == "C02":
                # exceptions / unparseable output are C01/C05's subject
                if probs and probs[0][0] in ("exc", "unparseable"):
                    skipped_unparseable += 1
                    outcomes["skipped_" + probs[0][0]] = \
                        outcomes.get("skipped_" + probs[0][0], 0) + 1
                    continue
            oc = "ok" if not probs else kind_of(probs[0])
            outcomes[oc] = outcomes.get(oc, 0) + 1
            for p in probs:
                viol.append({
                    "key": input_key([t["defn"], kind_of(p)] +
                                     (["names"] if t.get("names") else [])),
                    "what": f"{t.get('name', 'F')} {dsl.show(defn)} "
                            f"[{run['pres']}"
                            f"{'/' + t['names_map'] if t.get('names_map') else ''}"
                            f"] {kind_of(p)}: "
                            f"{str(p[1:])[:160]}",
                    "input": {"name": t.get("name"), "defn": t["defn"],
                              "k": t.get("k", 2), "pres": [run["pres"]],
                              "mode": t["mode"], "pi": t.get("pi"),
                              "names": t.get("names"),
                              "puml": t.get("puml", "x"),
                              "seed": t.get("seed", 0)},
                    "observed": {"problem": p, "text": run.get("text")}})
            if len(samples) < 4 and len(tags) >= 3 and not probs:
                samples.append({"definition": dsl.show(defn),
                                "presentation": run["pres"],
                                "jobs": r["jobs"],
                                "emitted": run.get("text")})
    he = None
    for need in ("and", "or", "xor", "loop", "break", "detach", "nested"):
        if construct_counts.get(need, 0) == 0:
            he = f"vacuous scope: no definition with construct '{need}'"
    cov = {"states": states, "transitions": trans,
           "traces_validated_against_impl": traces,
           "evaluations": evals, "distinct_nontrivial": len(nontrivial),
           "rule": rule, "samples": samples or [{"note": "no clean sample"}],
           "exhaustive": True, "capped": bool(capped),
           "capped_definitions": capped[:20], "bounds": bounds,
           "definitions": len(tasks),
           "tasks_per_family": families,
           "definitions_per_construct": construct_counts,
           "outcomes": outcomes, "distinct_emitted_texts": len(texts)}
    if pid == "C02":
        cov["skipped_unparseable"] = skipped_unparseable
    if subset_runs:
        cov["incomplete_evidence_runs"] = subset_runs
    return {"violations": viol, "coverage": cov, "harness_error": he,
            "assumptions": pvcommon.ASSUMPTIONS}


def replay_generic(rec):
    import os
    i = rec["input"]
    seed = str(i.get("seed") or 0)
    if os.environ.get("PYTHONHASHSEED", "0") != seed:
        # the string-hash seed is part of the schedule: re-run in a child
        # interpreter started with that seed
        import json
        import subprocess
        import sys
        code = ("import json,sys;from mc import pool;pool.worker_setup();"
                "from mc.checks import pvsweep;"
                "print('RES',json.dumps(pvsweep.replay_generic("
                "json.loads(sys.stdin.read()))))")
        r = subprocess.run([sys.executable, "-c", code],
                           input=json.dumps(rec), capture_output=True,
                           text=True, env=dict(os.environ,
                                               PYTHONHASHSEED=seed))
        lines = [ln for ln in r.stdout.splitlines() if ln.startswith("RES ")]
        if not lines:
            raise RuntimeError("replay child failed: " + r.stderr[-300:])
        v, msg = json.loads(lines[-1][4:])
        return v, msg
    if i.get("mode") == "c01sub":
        r = handle_subsets(i)
        return bool(r["bad"]), repr([b["problem"] for b in r["bad"]])[:300]
    r = handle({"defn": i["defn"], "k": i.get("k", 2), "pres": i["pres"],
                "mode": i["mode"], "pi": i.get("pi"),
                "names": i.get("names"), "puml": i.get("puml", "x")})
    want = rec["observed"]["problem"][0] if isinstance(rec["observed"], dict) \
        else None
    probs = [p for run in r["runs"] for p in run["problems"]]
    if rec["property"] == "C02":
        probs = [p for p in probs if p[0] == "extra"]
    return bool(probs), repr(probs[:2])[:300]
