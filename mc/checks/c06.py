"""C06 - gate inference explains all observed successor sets; exact without
mixed OR.

Exhaustive over all gate trees with 2..5 (6) distinct leaves, depth <= 3,
operators alternating between levels, children unordered; the full outcome
family of each is given to the real calculate_logic_gates; the returned
process tree is interpreted with the same gate semantics."""
import functools
import itertools

from ..findings import input_key

ID = "C06"
LEVEL = "exploration"
HANDLER = "mc.checks.c06:handle"
TIMEOUT = 600.0
OPS = ('and', 'or', 'xor')


def comps(n, k):
    if k == 1:
        yield (n,)
        return
    for a in range(1, n - k + 2):
        for r in comps(n - a, k - 1):
            yield (a,) + r


@functools.lru_cache(None)
def trees(n, depth, parent_op):
    if n == 1:
        return ('L',)
    if depth == 0:
        return ()
    res = []
    for op in OPS:
        if op == parent_op:
            continue
        for k in range(2, n + 1):
            for c in comps(n, k):
                if list(c) != sorted(c):
                    continue
                for ch in itertools.product(
                        *[trees(x, depth - 1, op) for x in c]):
                    if list(ch) != sorted(ch, key=repr):
                        continue
                    res.append((op,) + tuple(ch))
    return tuple(dict.fromkeys(res))


def label(t, names):
    c = itertools.count()

    def r(t):
        if t == 'L':
            return names[next(c)]
        return (t[0],) + tuple(r(x) for x in t[1:])
    return r(t)


def outcomes(t):
    if isinstance(t, str):
        return {frozenset([t])}
    op = t[0]
    ch = [outcomes(c) for c in t[1:]]
    if op == 'xor':
        return set().union(*ch)
    if op == 'and':
        return {frozenset().union(*p) for p in itertools.product(*ch)}
    res = set()
    for r in range(1, len(ch) + 1):
        for sub in itertools.combinations(ch, r):
            res |= {frozenset().union(*p) for p in itertools.product(*sub)}
    return res


class BadTree(Exception):
    pass


def pt_outcomes(pt):
    if pt.operator is None:
        return {frozenset()} if pt.label is None else {frozenset([pt.label])}
    v = pt.operator.value
    ch = [pt_outcomes(c) for c in pt.children]
    if not ch:
        raise BadTree("operator without children")
    if v == 'X':
        return set().union(*ch)
    if v == '+':
        return {frozenset().union(*p) for p in itertools.product(*ch)}
    if v == 'O':
        res = set()
        for r in range(1, len(ch) + 1):
            for sub in itertools.combinations(ch, r):
                res |= {frozenset().union(*p) for p in itertools.product(*sub)}
        return res
    raise BadTree("operator " + v)


def exact_class(t):
    if isinstance(t, str):
        return True
    if t[0] == 'or' and not all(isinstance(c, str) for c in t[1:]):
        return False
    if t[0] == 'and' and sum(1 for c in t[1:]
                             if not isinstance(c, str) and c[0] == 'or') >= 2:
        return False
    return all(exact_class(c) for c in t[1:])


def to_t(x):
    return tuple(to_t(y) if isinstance(y, (list, tuple)) else y for y in x)


def check_tree(t):
    import tel2puml.events as ev
    from tel2puml.logic_detection import calculate_logic_gates
    obs = outcomes(t)
    try:
        pt = calculate_logic_gates({ev.EventSet(sorted(s)) for s in obs})
        adm = pt_outcomes(pt)
    except BadTree as e:
        return ["bad_tree", str(e)], None
    except Exception as e:
        return ["exception", type(e).__name__, str(e)[:160]], None
    if not obs <= adm:
        return ["unsound", str(pt),
                [sorted(s) for s in sorted(obs - adm, key=sorted)][:3]], str(pt)
    if obs != adm and exact_class(t):
        return ["inexact", str(pt),
                [sorted(s) for s in sorted(adm - obs, key=sorted)][:3]], str(pt)
    return None, str(pt)


def check_family(fam):
    """soundness on incomplete evidence: any family of observed sets must
    be admitted by the inferred tree"""
    import tel2puml.events as ev
    from tel2puml.logic_detection import calculate_logic_gates
    obs = {frozenset(x) for x in fam}
    try:
        pt = calculate_logic_gates({ev.EventSet(sorted(s)) for s in obs})
        adm = pt_outcomes(pt)
    except BadTree as e:
        return ["bad_tree", str(e)], None
    except Exception as e:
        return ["exception", type(e).__name__, str(e)[:160]], None
    if not obs <= adm:
        return ["unsound", str(pt),
                [sorted(s) for s in sorted(obs - adm, key=sorted)][:3]], str(pt)
    return None, str(pt)


def sub_families(t, all_below, loo_below):
    obs = sorted(outcomes(t), key=sorted)
    m = len(obs)
    if m <= all_below:
        return [list(c) for r in range(1, m)
                for c in itertools.combinations(obs, r)]
    if m <= loo_below:
        return [[o for o in obs if o is not x] for x in obs]
    return []


def handle(task):
    if task.get("families"):
        out = []
        for fam in task["families"]:
            prob, pt = check_family(fam)
            out.append({"family": fam, "problem": prob, "pt": pt})
        return {"sub": out, "seed": task["seed"]}
    out = []
    for t in task["trees"]:
        t = to_t(t)
        prob, pt = check_tree(t)
        out.append({"tree": t, "problem": prob, "pt": pt,
                    "exact_class": exact_class(t),
                    "n_outcomes": len(outcomes(t))})
    return {"out": out, "seed": task["seed"]}


def seed_of(task):
    return task["seed"]


def build(tier, ctx):
    N = 5 if tier == "quick" else 6
    seeds = (0, 1) if tier == "quick" else tuple(range(8))
    shapes = [t for n in range(2, N + 1) for t in trees(n, 3, None)]
    fwd = "ABCDEFGH"
    rev = "ZYXWVUTS"
    mixed = "MAZBYCXD"
    # wave 13/14: unusual but legitimate event type names: words and symbols
    # the miner and the process-tree notation use themselves, names that are
    # prefixes of one another or differ in case / blanks / quoting only
    odd1 = ["tau", "+", "X", "O", "->", "*", "a b", "a,b"]
    odd2 = ["A", "a", "AA", "A A", "'A'", "(A)", "A1", "A_1"]
    odd3 = ["X( a, b )", "None", "O", "tau", "a", "A", "|||START|||x", "1"]
    labelled = []
    for s in shapes:
        labelled.append(label(s, fwd))
        labelled.append(label(s, rev))
        labelled.append(label(s, odd1))
        labelled.append(label(s, odd2))
        labelled.append(label(s, odd3))
        if tier == "thorough":
            labelled.append(label(s, mixed))
    tasks = []
    chunk = 6
    for seed in seeds:
        for i in range(0, len(labelled), chunk):
            tasks.append({"seed": seed, "trees": labelled[i:i + chunk]})
    # wave 14: a name that is the joined spelling of two (three) other names
    # of the same family, for the separators code commonly joins with; the
    # joined name is placed before, between and after its parts
    joined = []
    for sep in (",", " ", "", "_", "|", ";", "->", ", ", "+", "\n"):
        a, b, c = "A", "B", "C"
        ab, ba, abc = a + sep + b, b + sep + a, a + sep + b + sep + c
        for names in ([a, b, ab, ba, c, abc, "D", "E"],
                      [ab, a, b, c, abc, ba, "D", "E"],
                      [a, ab, b, abc, c, ba, "D", "E"],
                      [c, ba, ab, a, b, abc, "D", "E"]):
            for s in shapes:
                joined.append(label(s, names))
    joined = list(dict.fromkeys(joined))
    for i in range(0, len(joined), 24):
        tasks.append({"seed": 0, "trees": joined[i:i + 24]})
    # incomplete evidence (first sentence of the property): every proper
    # non-empty sub-family of the outcome family of a tree, soundness only
    all_below, loo_below = (7, 16) if tier == "quick" else (8, 32)
    fams = {}
    for names in (fwd, rev):
        for s in shapes:
            for fam in sub_families(label(s, names), all_below, loo_below):
                key = frozenset(fam)
                if key not in fams:
                    fams[key] = [sorted(x) for x in fam]
    fams = list(fams.values())
    chunk = 40
    for seed in seeds[:2]:
        for i in range(0, len(fams), chunk):
            tasks.append({"seed": seed, "families": fams[i:i + chunk]})
    return tasks


def collect(tier, tasks, results, ctx):
    viol = []
    n = 0
    exact = 0
    distinct = set()
    ptrees = set()
    ops_seen = set()
    samples = []
    nsub = 0
    for t, r in zip(tasks, results):
        for o in r.get("sub", ()):
            n += 1
            nsub += 1
            if o["pt"]:
                ptrees.add(o["pt"])
            if o["problem"]:
                viol.append({
                    "key": input_key(["C06", "family", o["family"],
                                      o["problem"][0]]),
                    "what": f"observed sets {o['family']} seed={r['seed']}: "
                            f"{o['problem']}",
                    "input": {"family": o["family"], "seed": r["seed"]},
                    "observed": o["problem"]})
        for o in r.get("out", ()):
            n += 1
            distinct.add(repr(o["tree"]))
            if o["pt"]:
                ptrees.add(o["pt"])
                for op in ("+", "X", "O"):
                    if op + "(" in o["pt"]:
                        ops_seen.add(op)
            if o["exact_class"]:
                exact += 1
            if len(samples) < 3 and o["pt"] and o["n_outcomes"] >= 6:
                samples.append({"gate_tree": o["tree"],
                                "observed_sets": o["n_outcomes"],
                                "inferred": o["pt"]})
            if o["problem"]:
                viol.append({
                    "key": input_key(["C06", o["tree"], o["problem"][0]]),
                    "what": f"tree={o['tree']} seed={r['seed']}: "
                            f"{o['problem']}",
                    "input": {"tree": o["tree"], "seed": r["seed"]},
                    "observed": o["problem"]})
    he = None
    if ops_seen != {"+", "X", "O"}:
        he = f"vacuous: inferred trees only used operators {sorted(ops_seen)}"
    cov = {
        "evaluations": n, "distinct_nontrivial": len(distinct),
        "rule": "every gate tree with 2..N distinct leaves, depth <= 3, "
                "alternating operators, unordered children, under 2 (3) leaf "
                "namings that reverse/mix the alphabetical order, one worker "
                "process per hash seed; the complete outcome family is the "
                "input; every such tree is non-trivial (>= 2 leaves); "
                "plus, for soundness on incomplete evidence, every proper "
                "non-empty sub-family of the outcome family of each tree "
                "with <= 7 (8) outcomes and every leave-one-out sub-family "
                "up to 16 (32) outcomes, distinct families only, seeds 0-1",
        "samples": samples, "exhaustive": True,
        "bounds": {"tier": tier, "leaves": "2..5" if tier == "quick"
                   else "2..6", "hash_seeds": [0, 1] if tier == "quick"
                   else list(range(8))},
        "trees_in_exact_subclass_evaluations": exact,
        "incomplete_families_evaluations": nsub,
        "distinct_inferred_trees": len(ptrees),
    }
    return {"violations": viol, "coverage": cov, "harness_error": he,
            "assumptions": ["reference gate semantics: AND = one outcome of "
                            "each child, XOR = one child, OR = any non-empty "
                            "subset of children; tau = empty set"]}


def replay(rec, ctx):
    # hash seed is part of the schedule: re-run in a child with that seed
    import json
    import os
    import subprocess
    import sys
    i = rec["input"]
    env = dict(os.environ, PYTHONHASHSEED=str(i["seed"]))
    code = ("import json,sys;from mc import pool;pool.worker_setup();"
            "from mc.checks import c06;a=json.loads(sys.argv[1]);"
            "p,pt=(c06.check_family(a['family']) if 'family' in a else "
            "c06.check_tree(c06.to_t(a['tree'])));"
            "print(json.dumps(p))")
    r = subprocess.run([sys.executable, "-c", code, json.dumps(i)],
                       env=env, capture_output=True, text=True)
    prob = json.loads(r.stdout.strip().splitlines()[-1])
    return bool(prob), repr(prob)[:300]
