"""C08 - call trees are sequenced exactly as the sequencing rules specify.

Exhaustive: all rooted span trees with <= 4 spans, sibling intervals on an
integer grid with pairwise distinct endpoints among siblings, child types in
{a,b}, x {sync, async} x 4 prior-information maps x 3 rename maps, several
listing orders.  Oracle: independent reference sequencer of the documented
rules (mc.checks.c08.ref_sequence)."""
import itertools

from ..findings import input_key

ID = "C08"
LEVEL = "exploration"
HANDLER = "mc.checks.c08:handle"
TIMEOUT = 900.0

# parent arrays, node 0 = root
SHAPES = [[-1], [-1, 0], [-1, 0, 0], [-1, 0, 1], [-1, 0, 0, 0], [-1, 0, 0, 1],
          [-1, 0, 1, 1], [-1, 0, 1, 2]]
AM = [{}, {'r': {'a': 'g1'}}, {'r': {'a': 'g1', 'b': 'g1'}},
      {'r': {'a': 'g1', 'b': 'g2'}}]
RM = [{}, {'r': ('R', ['a'])}, {'r': ('R', ['b'])},
      # wave 13: rename at an inner level, onto a type that has prior
      # information of its own; rename of the root onto a child type
      {'a': ('r', ['b'])}, {'r': ('a', ['a'])}]
# wave 13: unusual but legitimate labels and placements of the prior
# information: the empty string as a group label, labels that are themselves
# type names (crossed), the map given for an inner parent type, one label
# under two parent types
AM += [{'r': {'a': '', 'b': ''}}, {'r': {'a': '', 'b': 'g2'}},
       {'r': {'a': 'b', 'b': 'a'}}, {'a': {'a': 'g1', 'b': 'g1'}},
       {'r': {'a': 'g1'}, 'a': {'a': 'g1', 'b': 'g1'}}]
CONFIGS = [(a, r) for a in range(4) for r in range(3)]
EXTRA_CONFIGS = [(4, 0), (5, 0), (6, 0), (7, 0), (8, 0), (2, 3), (0, 3),
                 (7, 4), (8, 3)]
SEC = 10 ** 9
BASE = 1_700_000_000   # seconds


def intervals(grid):
    return [(s, e) for s in range(grid) for e in range(s + 1, grid + 1)]


def pv_string(ns):
    """integer reference: ns -> PV timestamp (whole microseconds here)"""
    from datetime import datetime, timedelta
    dt = datetime(1970, 1, 1) + timedelta(microseconds=ns // 1000)
    return dt.strftime("%Y-%m-%dT%H:%M:%S.%fZ")


def ref_sequence(spans, async_flag, amap, rmap):
    """documented rules (docs/user/sequencer_HOWTO.md): siblings sorted by
    start; prior-information groups; async = merge consecutive groups while
    the next start lies before the maximum end seen in the chain; previous
    ids = members of the preceding group (first group inherits); parent
    follows its last group; rename when a listed child type is present."""
    types = {i: sp['type'] for i, sp in spans.items()}
    newtypes = dict(types)
    for i, sp in spans.items():
        if types[i] in rmap:
            mapped, childtypes = rmap[types[i]]
            if any(types[c] in childtypes for c in sp['children']):
                newtypes[i] = mapped
    prev = {}

    def seq(i, inherited):
        sp = spans[i]
        gm = amap.get(newtypes[i], {})
        groups = {}
        singles = []
        for c in sp['children']:
            t = newtypes[c]
            if t in gm:
                groups.setdefault(gm[t], []).append(c)
            else:
                singles.append([c])
        gl = [sorted(g, key=lambda c: spans[c]['s'])
              for g in list(groups.values()) + singles]
        gl.sort(key=lambda g: spans[g[0]]['s'])
        if async_flag:
            merged = []
            for g in gl:
                if merged and spans[g[0]]['s'] < merged[-1][1]:
                    merged[-1][0].extend(g)
                    merged[-1][1] = max(merged[-1][1],
                                        max(spans[c]['e'] for c in g))
                else:
                    merged.append([list(g), max(spans[c]['e'] for c in g)])
            gl = [m[0] for m in merged]
        cur = inherited
        for g in gl:
            for c in g:
                seq(c, cur)
            cur = list(g)
        prev[i] = cur
    root = [i for i, sp in spans.items() if sp['parent'] is None][0]
    seq(root, [])
    return {i: (newtypes[i], frozenset(p)) for i, p in prev.items()}


def run_impl(spans, async_flag, amap, rmap, order, unit=SEC):
    from tel2puml.otel_to_pv.sequence_otel import sequence_otel_job_id_streams
    from tel2puml.otel_to_pv.otel_to_pv_types import OTelEvent, OTelEventTypeMap
    pos = {n: k for k, n in enumerate(order)}
    evs = []
    for i in order:
        sp = spans[i]
        evs.append(OTelEvent(
            job_name=f"name{i}", job_id=f"job{i}", event_type=sp['type'],
            event_id=str(i), start_timestamp=BASE * SEC + sp['s'] * unit,
            end_timestamp=BASE * SEC + sp['e'] * unit +
            (1000 if unit >= SEC else 1) * (i + 1),
            application_name=f"app{i}",
            parent_event_id=None if sp['parent'] is None else str(sp['parent']),
            child_event_ids=[str(c) for c in
                             sorted(sp['children'], key=lambda c: pos[c])]))
    rm = {k: OTelEventTypeMap(mapped_event_type=v[0],
                              child_event_types=set(v[1]))
          for k, v in rmap.items()} or None
    out = list(sequence_otel_job_id_streams([evs], async_flag, amap or None, rm))
    if len(out) != 1:
        raise AssertionError("one job in, %d out" % len(out))
    return list(out[0])


def judge(spans, pv, exp, unit=SEC):
    """compare the PV events of one job with the reference"""
    k = len(spans)
    ids = [p['eventId'] for p in pv]
    if sorted(ids) != sorted(str(i) for i in spans):
        return ["span_set", ids]
    got = {}
    for p in pv:
        i = int(p['eventId'])
        sp = spans[i]
        end_ns = BASE * SEC + sp['e'] * unit + \
            (1000 if unit >= SEC else 1) * (i + 1)
        want = {"jobId": f"job{i}", "jobName": f"name{i}",
                "applicationName": f"app{i}",
                "timestamp": pv_string(end_ns)}
        for f, w in want.items():
            if p.get(f) != w:
                # an end time that is not a whole microsecond may be rounded
                # either way (C16 leaves rounding versus truncation open)
                if f == "timestamp" and end_ns % 1000 and \
                        p.get(f) == pv_string(end_ns + 1000):
                    continue
                return ["field", i, f, p.get(f), w]
        prev = p.get('previousEventIds', [])
        if isinstance(prev, str):
            prev = [prev]
        if len(set(prev)) != len(prev):
            return ["duplicate_link", i, prev]
        got[i] = (p['eventType'], frozenset(int(x) for x in prev))
    if got != exp:
        bad = [i for i in got if got[i] != exp[i]]
        return ["links", bad[0], [got[bad[0]][0], sorted(got[bad[0]][1])],
                [exp[bad[0]][0], sorted(exp[bad[0]][1])]]
    # derived: acyclic, single start, each span after all its descendants
    preds = {i: set(got[i][1]) for i in got}
    anc = {}

    def closure(i, stack=()):
        if i in anc:
            return anc[i]
        if i in stack:
            raise ValueError("cycle")
        s = set()
        for p in preds[i]:
            s.add(p)
            s |= closure(p, stack + (i,))
        anc[i] = s
        return s
    try:
        for i in preds:
            closure(i)
    except ValueError:
        return ["cyclic"]
    # events without predecessor: exactly the deepest-first members of the
    # first group chain (one event unless the rules make the first group
    # parallel) - implied by link equality; checked here independently
    starts = {i for i in preds if not preds[i]}
    if not starts or starts != {i for i in exp if not exp[i][1]}:
        return ["starts", sorted(starts)]

    def desc(i):
        out = set()
        for c in spans[i]['children']:
            out.add(c)
            out |= desc(c)
        return out
    for i in spans:
        if not desc(i) <= anc[i]:
            return ["descendant_not_before", i]
    return None


def orders_for(k, full):
    base = list(range(k))
    if not full:
        return [base, base[::-1]]
    return [list(p) for p in itertools.permutations(base)]


def handle(task):
    grid = task["grid"]
    shape = task["shape"]
    tl = task["types"]
    k = len(shape)
    kids = {i: [j for j in range(k) if shape[j] == i] for i in range(k)}
    iv = intervals(grid)
    n = 0
    bad = []
    outcomes = set()
    counters = {"async_merge": 0, "chain_rule_matters": 0, "group": 0,
                "rename": 0}
    first = task.get("first")
    # fine time unit: the same grid in steps of 100 ns at epoch magnitude
    # (> 2**53 ns), where float arithmetic no longer separates neighbours
    unit = task.get("unit", SEC)
    fine = unit < SEC
    for ivs in itertools.product(iv, repeat=k - 1):
        if first is not None and list(ivs[0]) != list(first):
            continue
        ok = True
        for i in range(k):
            pts = [p for c in kids[i] for p in ivs[c - 1]]
            if len(set(pts)) != len(pts):
                ok = False
                break
        if not ok:
            continue
        spans = {0: dict(type='r', s=0, e=grid + 1, parent=None,
                         children=kids[0])}
        for j in range(1, k):
            spans[j] = dict(type=tl[j - 1], s=ivs[j - 1][0], e=ivs[j - 1][1],
                            parent=shape[j], children=kids[j])
        for af in (False, True):
            for ami, rmi in CONFIGS + EXTRA_CONFIGS:
                am, rm = AM[ami], RM[rmi]
                if True:
                    if fine and (ami not in (0, 3) or rmi):
                        continue
                    exp = ref_sequence(spans, af, am, rm)
                    full = (k <= 4 and ami == 3 and rmi == 0
                            and task.get("perms", True))
                    orders = orders_for(k, full)
                    if (ami, rmi) in EXTRA_CONFIGS and k == 4:
                        orders = orders[:1]
                    for order in orders:
                        n += 1
                        try:
                            pv = run_impl(spans, af, am, rm, order, unit)
                            prob = judge(spans, pv, exp, unit)
                        except Exception as e:
                            prob = ["exception", type(e).__name__,
                                    str(e)[:120]]
                        if prob:
                            if len(bad) < 50:
                                bad.append({"spans": spans, "async": af,
                                            "am": ami, "rm": rmi,
                                            "order": order, "problem": prob,
                                            "grid": grid, "unit": unit})
                            else:
                                bad.append(None)
                    sig = tuple(sorted((i, t, tuple(sorted(p)))
                                       for i, (t, p) in exp.items()))
                    outcomes.add(hash(sig))
                    if af and any(len(p) > 1 for _, p in exp.values()):
                        counters["async_merge"] += 1
                    if exp[0][0] in ('R', 'a'):
                        counters["rename"] += 1
                    if am and not af and any(len(p) > 1 for _, p in exp.values()):
                        counters["group"] += 1
    nbad = len(bad)
    return {"n": n, "bad": [b for b in bad if b], "nbad": nbad,
            "outcomes": len(outcomes), "counters": counters}


def build(tier, ctx):
    grid = 5 if tier == "quick" else 6
    tasks = []
    for shape in SHAPES:
        k = len(shape)
        for tl in itertools.product('ab', repeat=k - 1):
            if k >= 4:
                for f in intervals(grid):
                    tasks.append({"grid": grid, "shape": shape,
                                  "types": list(tl), "first": list(f)})
            else:
                tasks.append({"grid": grid, "shape": shape,
                              "types": list(tl)})
    for t in list(tasks):
        tasks.append(dict(t, unit=100))
    return tasks


def case_key(b):
    sp = {str(i): [s['type'], s['s'], s['e'], s['parent']]
          for i, s in b["spans"].items()}
    return input_key(["C08", sp, b["async"], b["am"], b["rm"], b["order"]] +
                     ([b["unit"]] if b.get("unit", SEC) != SEC else []))


def collect(tier, tasks, results, ctx):
    viol = []
    n = 0
    outcomes = 0
    counters = {}
    truncated = 0
    for t, r in zip(tasks, results):
        n += r["n"]
        outcomes += r["outcomes"]
        for c, v in r["counters"].items():
            counters[c] = counters.get(c, 0) + v
        truncated += r["nbad"] - len(r["bad"])
        for b in r["bad"]:
            viol.append({
                "key": case_key(b),
                "what": f"spans={ {i: (s['type'], s['s'], s['e'], s['parent']) for i, s in b['spans'].items()} } "
                        f"async={b['async']} groups={AM[b['am']]} "
                        f"rename={RM[b['rm']]} order={b['order']} "
                        f"unit={b.get('unit', SEC)}ns: "
                        f"{b['problem']}",
                "input": b, "observed": b["problem"]})
    he = None
    for c in ("async_merge", "group", "rename"):
        if not counters.get(c):
            he = f"vacuous: rule '{c}' never exercised"
    cov = {
        "evaluations": n, "distinct_nontrivial": outcomes,
        "rule": "all rooted span trees with <= 4 spans, sibling intervals on "
                "the integer grid with pairwise distinct endpoints, child "
                "types over {a,b}, 2 async flags x 4 prior-information maps "
                "x 3 rename maps, listing orders {identity, reversed} (all "
                "permutations for one configuration); distinct_nontrivial = "
                "distinct (tree, configuration) reference outcomes per task "
                "summed over tasks",
        "samples": [{"spans": {"0": ["r", 0, 6], "1": ["a", 0, 5],
                               "2": ["b", 1, 2], "3": ["a", 3, 4]},
                     "async": True, "expected_prev_of_root": [1, 2, 3]}],
        "exhaustive": True,
        "bounds": {"tier": tier, "spans": "<= 4",
                   "grid": "{0..5}" if tier == "quick" else "{0..6}",
                   "configurations": "24 + 9 with unusual labels / inner-level maps",
                   "time_units": "grid step 1 s (all 24 configurations) and "
                   "100 ns (sync/async x {no map, two-group map}), both at "
                   "epoch 1.7e18 ns"},
        "rule_exercised": counters,
        "violations_not_itemised": truncated,
    }
    return {"violations": viol, "coverage": cov, "harness_error": he,
            "assumptions": [
                "reference sequencer implements docs/user/sequencer_HOWTO.md; "
                "touching intervals (end == next start) and ties are "
                "excluded as unspecified",
                "prior-information maps are looked up by the parent's type "
                "after renaming"]}


def replay(rec, ctx):
    b = rec["input"]
    spans = {int(i): s for i, s in b["spans"].items()}
    exp = ref_sequence(spans, b["async"], AM[b["am"]], RM[b["rm"]])
    try:
        unit = b.get("unit", SEC)
        pv = run_impl(spans, b["async"], AM[b["am"]], RM[b["rm"]], b["order"],
                      unit)
        prob = judge(spans, pv, exp, unit)
    except Exception as e:
        prob = ["exception", type(e).__name__, str(e)[:120]]
    return bool(prob), repr(prob)
