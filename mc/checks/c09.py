"""C09 - unique-graph selection keeps one trace per distinct call-tree shape.

Model checking over stores x configurations: every multiset of <= 2 (3)
traces whose shapes are all labelled rooted trees with <= 3 (4) nodes in every
sibling listing order, over 2 workflow names; x batch sizes {1,2,3,1000} x 4
ingestion orders.  Real code: ingestion, cleaning as otel_to_pv does,
find_unique_graphs.  Oracle: AHU canonical shapes."""
import itertools

from .. import impl_otel, otel_model as om
from ..findings import input_key

ID = "C09"
LEVEL = "model_checking"
HANDLER = "mc.checks.c09:handle"
TIMEOUT = 900.0
BATCHES = (1, 2, 3, 1000)


def items(max_nodes):
    return [(nm, sh) for nm in ("n1", "n2") for sh in om.shapes(max_nodes)]


def build(tier, ctx):
    stores = []
    it3 = items(3)
    for r in (1, 2):
        stores += list(itertools.combinations_with_replacement(it3, r))
    if tier == "thorough":
        stores += list(itertools.combinations_with_replacement(it3, 3))
        it4 = [x for x in items(4) if x not in set(it3)]
        stores += [(a,) for a in it4]
        stores += [(a, b) for a in it4 for b in items(4)]
    chunk = 8 if tier == "quick" else 24
    return [{"stores": stores[i:i + chunk]}
            for i in range(0, len(stores), chunk)]


def run_store(store):
    bad = []
    n = 0
    traces = [om.spans_of(sh, f"j{k}", nm) for k, (nm, sh) in enumerate(store)]
    exp = {}
    for k, (nm, sh) in enumerate(store):
        exp.setdefault(nm, set()).add(om.shape_canon(sh))
    reps = {}
    paged = 0
    for bs in BATCHES:
        for on, order in om.ingestion_orders(traces).items():
            n += 1
            if len(store) > bs:
                paged += 1
            h = impl_otel.new_holder(batch_size=bs)
            try:
                impl_otel.ingest(h, order)
                h.remove_inconsistent_jobs()
                h.remove_jobs_outside_of_time_window()
                h.update_job_names_by_root_span()
                sel = h.find_unique_graphs()
            except Exception as e:
                bad.append({"bs": bs, "order": on,
                            "problem": ["exception", type(e).__name__,
                                        str(e)[:160]]})
                continue
            finally:
                h.engine.dispose()
            got = {}
            prob = None
            for nm, ids in sel.items():
                idx = [int(j[1:]) for j in ids]
                if any(store[i][0] != nm for i in idx):
                    prob = ["wrong_name", nm, sorted(ids)]
                cs = [om.shape_canon(store[i][1]) for i in idx]
                if len(set(cs)) != len(cs):
                    prob = ["same_shape_twice", nm, sorted(ids)]
                got[nm] = set(cs)
            if prob is None and got != exp:
                prob = ["shapes_differ",
                        {k: len(v) for k, v in got.items()},
                        {k: len(v) for k, v in exp.items()}]
            if prob:
                bad.append({"bs": bs, "order": on, "problem": prob,
                            "selected": {k: sorted(v) for k, v in sel.items()}})
            reps.setdefault(repr(sorted((k, sorted(v))
                                        for k, v in sel.items())), 0)
    return n, bad, paged, len(reps)


def handle(task):
    out = []
    n = 0
    paged = 0
    for store in task["stores"]:
        store = [(nm, _tt(sh)) for nm, sh in store]
        k, bad, pg, nreps = run_store(store)
        n += k
        paged += pg
        for b in bad:
            b["store"] = store
            out.append(b)
    return {"n": n, "bad": out, "paged": paged}


def _tt(x):
    return tuple(_tt(y) if isinstance(y, (list, tuple)) else y for y in x)


def collect(tier, tasks, results, ctx):
    viol = []
    n = paged = 0
    nstores = 0
    nontrivial = 0
    for t, r in zip(tasks, results):
        n += r["n"]
        paged += r["paged"]
        for st in t["stores"]:
            nstores += 1
            cs = [(nm, om.shape_canon(_tt(sh))) for nm, sh in st]
            if len(set(cs)) < len(cs):
                nontrivial += 1
        for b in r["bad"]:
            viol.append({
                "key": input_key(["C09", b["store"], b["bs"], b["order"]]),
                "what": f"store={b['store']} batch={b['bs']} "
                        f"order={b['order']}: {b['problem']}",
                "input": {"store": b["store"], "bs": b["bs"],
                          "order": b["order"]},
                "observed": b})
    he = None
    if nontrivial < 2:
        he = "vacuous: no store with two traces of the same shape"
    if paged == 0:
        he = "vacuous: root paging never needed a second page"
    cov = {
        "states": nstores, "transitions": n,
        "traces_validated_against_impl": n,
        "evaluations": n, "distinct_nontrivial": nontrivial,
        "rule": "every multiset of traces (shapes = all labelled rooted "
                "trees up to the node bound in every sibling listing order, "
                "2 workflow names) x 4 batch sizes x 4 ingestion orders; "
                "non-trivial = distinct stores holding two traces of the same "
                "name and the same shape up to sibling order",
        "samples": [{"store": tasks[len(tasks) // 2]["stores"][0],
                     "batch_sizes": list(BATCHES),
                     "orders": ["seq", "rev", "childfirst", "rr"]}],
        "exhaustive": True,
        "bounds": {"tier": tier,
                   "stores": "<= 2 traces of <= 3 nodes" if tier == "quick"
                   else "<= 3 traces of <= 3 nodes; <= 2 traces with one of "
                        "exactly 4 nodes"},
        "stores": nstores, "runs_needing_several_root_pages": paged,
        "states_meaning": "stores (initial database contents) explored; "
                          "transitions = configurations (batch size x "
                          "ingestion order) executed on the real code",
    }
    return {"violations": viol, "coverage": cov, "harness_error": he,
            "assumptions": ["in-memory SQLite; which representative of a "
                            "shape is chosen is not constrained"]}


def replay(rec, ctx):
    i = rec["input"]
    store = [(nm, _tt(sh)) for nm, sh in i["store"]]
    n, bad, _, _ = run_store(store)
    bad = [b for b in bad if b["bs"] == i["bs"] and b["order"] == i["order"]]
    return bool(bad), repr([b["problem"] for b in bad])[:300]
