"""C09 - unique-graph selection keeps one trace per distinct call-tree shape.

Model checking over stores x configurations: every multiset of <= 2 (3)
traces whose shapes are all labelled rooted trees with <= 3 (4) nodes in every
sibling listing order, over 2 workflow names; x batch sizes {1,2,3,1000} x 4
ingestion orders.  Real code: ingestion, cleaning as otel_to_pv does,
find_unique_graphs.  Oracle: AHU canonical shapes."""
import itertools

from .. import impl_otel, otel_model as om
from ..findings import input_key

ID = "C09"
LEVEL = "model_checking"
HANDLER = "mc.checks.c09:handle"
TIMEOUT = 900.0
BATCHES = (1, 2, 3, 1000)


def items(max_nodes, labels="ab"):
    return [(nm, sh) for nm in ("n1", "n2")
            for sh in om.shapes(max_nodes, labels)]


# wave 14: span type names that are different strings but easily taken for
# the same: composed / decomposed accent, letter case, trailing blank, one a
# prefix of the other, digit strings
ODD_LABELS = (("caf\u00e9", "cafe\u0301"), ("a", "A"), ("a", "a "),
              ("a", "aa"), ("1", "01"))


def build(tier, ctx):
    stores = []
    it3 = items(3)
    for r in (1, 2):
        stores += list(itertools.combinations_with_replacement(it3, r))
    if tier == "thorough":
        stores += list(itertools.combinations_with_replacement(it3, 3))
        it4 = [x for x in items(4) if x not in set(it3)]
        stores += [(a,) for a in it4]
        stores += [(a, b) for a in it4 for b in items(4)]
    for labels in ODD_LABELS:
        it2 = items(2 if tier == "quick" else 3, labels)
        for r in (1, 2):
            stores += list(itertools.combinations_with_replacement(it2, r))
    chunk = 8 if tier == "quick" else 24
    tasks = [{"stores": stores[i:i + chunk]}
             for i in range(0, len(stores), chunk)]
    # time window of the candidate roots: traces placed inside / straddling /
    # outside a buffered window (time_buffer = 1)
    wi = window_items()
    wstores = [[a] for a in wi] + [list(c) for c in
                                   itertools.combinations_with_replacement(wi, 2)]
    if tier == "thorough":
        wi3 = [x for x in wi if x[0] == "n1" and x[1] in SHAPES2[:3]]
        wstores += [list(c) for c in
                    itertools.combinations_with_replacement(wi3, 3)]
    for i in range(0, len(wstores), 40):
        tasks.append({"window": True, "stores": wstores[i:i + 40]})
    # scale: root pages and id lists around the sizes at which SQL statements
    # are usually chunked (500 / 900 / 999 / 1000), default batch size
    sizes = [(501, 1000), (901, 1000), (1001, 1000), (1201, 1000),
             (1001, 2000)]
    if tier == "thorough":
        sizes += [(n, bs) for n in (999, 1000, 1499, 1801, 2001)
                  for bs in (1000, 5000)] + [(1001, 400), (1201, 500)]
    tasks[:0] = [{"scale": [sz], "stores": []} for sz in sizes]
    return tasks


M = om.M
PLACE = {  # root interval, child interval (minutes); window is [1, 4]
    "in": ((2.0, 3.0), (2.2, 2.8)),
    "lo": ((0.5, 2.0), (0.6, 0.9)),     # only the root's end is inside
    "hi": ((3.0, 4.5), (4.1, 4.4)),     # only the root's start is inside
    "out": ((0.2, 0.8), (0.3, 0.7)),
    # exactly on the (inclusive) window edges
    "elo": ((0.2, 1.0), (0.3, 0.7)),
    "ehi": ((4.0, 4.6), (4.1, 4.4)),
}
# the same placements at epoch magnitude (not a multiple of 256 ns)
EPOCH_BASE = 1_715_688_000_123_456_789
SHAPES2 = [('a',), ('b',), ('a', ('a',)), ('a', ('b',)), ('b', ('a',)),
           ('b', ('b',))]


def window_items():
    return [(nm, sh, pl) for nm in ("n1", "n2") for sh in SHAPES2
            for pl in sorted(PLACE)]


def window_spans(store, base=0):
    traces, anchors = _window_spans(store)
    if base:
        for t in traces + anchors:
            for sp in t:
                sp["start_timestamp"] += base
                sp["end_timestamp"] += base
    return traces, anchors


def _window_spans(store):
    """traces placed relative to a [1, 4] minute window fixed by two anchor
    traces at minute 0 and minute 5 (time_buffer = 1)"""
    traces = []
    for k, (nm, sh, pl) in enumerate(store):
        (rs, re_), (cs, ce) = PLACE[pl]
        jid = f"j{k}"
        t = [dict(job_name=nm, job_id=jid, event_type=sh[0],
                  event_id=f"{jid}_0", start_timestamp=int(rs * M),
                  end_timestamp=int(re_ * M), application_name="a",
                  parent_event_id=None)]
        for ci, c in enumerate(sh[1:]):
            t.append(dict(job_name=nm, job_id=jid, event_type=c[0],
                          event_id=f"{jid}_{ci + 1}",
                          start_timestamp=int(cs * M),
                          end_timestamp=int(ce * M), application_name="a",
                          parent_event_id=f"{jid}_0"))
        traces.append(t)
    anchors = [[dict(job_name="zz", job_id="early", event_type="z",
                     event_id="early_0", start_timestamp=0, end_timestamp=1,
                     application_name="a", parent_event_id=None)],
               [dict(job_name="zz", job_id="late", event_type="z",
                     event_id="late_0", start_timestamp=5 * M - 1,
                     end_timestamp=5 * M, application_name="a",
                     parent_event_id=None)]]
    return traces, anchors


def run_window_store(store):
    bad = []
    n = 0
    exp = {}
    for nm, sh, pl in store:
        if pl != "out":
            exp.setdefault(nm, set()).add(om.shape_canon(sh))
    for bs in (1, 2, 1000, -1000):
        # -1000: default batch size with all times at epoch magnitude
        epoch = bs < 0
        traces, anchors = window_spans(store, EPOCH_BASE if epoch else 0)
        bs = abs(bs)
        for on in ("seq", "rev"):
            allt = anchors[:1] + traces + anchors[1:]
            order = om.ingestion_orders(allt)[on]
            n += 1
            h = impl_otel.new_holder(batch_size=bs, time_buffer=1)
            try:
                impl_otel.ingest(h, order)
                h.remove_inconsistent_jobs()
                h.remove_jobs_outside_of_time_window()
                h.update_job_names_by_root_span()
                sel = h.find_unique_graphs()
            except Exception as e:
                bad.append({"bs": bs, "order": on, "window": True,
                            "epoch": epoch,
                            "problem": ["exception", type(e).__name__,
                                        str(e)[:160]]})
                continue
            finally:
                h.engine.dispose()
            got = {}
            prob = None
            for nm, ids in sel.items():
                idx = [int(j[1:]) for j in ids if j.startswith("j")]
                if len(idx) != len(ids):
                    prob = ["anchor_selected", nm, sorted(ids)]
                    break
                cs = [om.shape_canon(store[i][1]) for i in idx]
                if len(set(cs)) != len(cs):
                    prob = ["same_shape_twice", nm, sorted(ids)]
                got[nm] = set(cs)
            if prob is None and got != exp:
                prob = ["shapes_differ", {k: len(v) for k, v in got.items()},
                        {k: len(v) for k, v in exp.items()}]
            if prob:
                bad.append({"bs": bs, "order": on, "window": True,
                            "epoch": epoch, "problem": prob})
    return n, bad


def scale_store(n):
    """n traces over both names cycling through every shape with <= 3
    nodes: many traces per shape, far more than any small store"""
    it = items(3)
    return [it[(k * 7) % len(it)] for k in range(n)]


def run_store(store, batches=BATCHES, orders=None):
    bad = []
    n = 0
    traces = [om.spans_of(sh, f"j{k}", nm) for k, (nm, sh) in enumerate(store)]
    exp = {}
    for k, (nm, sh) in enumerate(store):
        exp.setdefault(nm, set()).add(om.shape_canon(sh))
    reps = {}
    paged = 0
    for bs in batches:
        for on, order in om.ingestion_orders(traces).items():
            if orders and on not in orders:
                continue
            n += 1
            if len(store) > bs:
                paged += 1
            h = impl_otel.new_holder(batch_size=bs)
            try:
                impl_otel.ingest(h, order)
                h.remove_inconsistent_jobs()
                h.remove_jobs_outside_of_time_window()
                h.update_job_names_by_root_span()
                sel = h.find_unique_graphs()
            except Exception as e:
                bad.append({"bs": bs, "order": on,
                            "problem": ["exception", type(e).__name__,
                                        str(e)[:160]]})
                continue
            finally:
                h.engine.dispose()
            got = {}
            prob = None
            for nm, ids in sel.items():
                idx = [int(j[1:]) for j in ids]
                if any(store[i][0] != nm for i in idx):
                    prob = ["wrong_name", nm, sorted(ids)]
                cs = [om.shape_canon(store[i][1]) for i in idx]
                if len(set(cs)) != len(cs):
                    prob = ["same_shape_twice", nm, sorted(ids)]
                got[nm] = set(cs)
            if prob is None and got != exp:
                prob = ["shapes_differ",
                        {k: len(v) for k, v in got.items()},
                        {k: len(v) for k, v in exp.items()}]
            if prob:
                bad.append({"bs": bs, "order": on, "problem": prob,
                            "selected": {k: sorted(v) for k, v in sel.items()}})
            reps.setdefault(repr(sorted((k, sorted(v))
                                        for k, v in sel.items())), 0)
    return n, bad, paged, len(reps)


def handle(task):
    out = []
    n = 0
    paged = 0
    if task.get("window"):
        for store in task["stores"]:
            store = [(nm, _tt(sh), pl) for nm, sh, pl in store]
            k, bad = run_window_store(store)
            n += k
            for b in bad:
                b["store"] = store
                out.append(b)
        return {"n": n, "bad": out, "paged": 0, "window_runs": n}
    if task.get("scale"):
        for nt, bs in task["scale"]:
            k, bad, pg, nreps = run_store(scale_store(nt), (bs,),
                                          ("seq", "rev"))
            n += k
            paged += pg
            for b in bad:
                b["scale"] = [nt, bs]
                b.pop("selected", None)
                out.append(b)
        return {"n": n, "bad": out, "paged": paged, "scale_runs": n}
    for store in task["stores"]:
        store = [(nm, _tt(sh)) for nm, sh in store]
        k, bad, pg, nreps = run_store(store)
        n += k
        paged += pg
        for b in bad:
            b["store"] = store
            out.append(b)
    return {"n": n, "bad": out, "paged": paged}


def _tt(x):
    return tuple(_tt(y) if isinstance(y, (list, tuple)) else y for y in x)


def collect(tier, tasks, results, ctx):
    viol = []
    n = paged = 0
    nstores = 0
    nontrivial = 0
    wruns = sruns = 0
    for t, r in zip(tasks, results):
        n += r["n"]
        paged += r["paged"]
        wruns += r.get("window_runs", 0)
        for st in t["stores"]:
            nstores += 1
            cs = [(x[0], om.shape_canon(_tt(x[1]))) for x in st]
            if len(set(cs)) < len(cs):
                nontrivial += 1
        sruns += r.get("scale_runs", 0)
        for b in r["bad"]:
            if b.get("scale"):
                viol.append({
                    "key": input_key(["C09", "scale", b["scale"],
                                      b["order"]]),
                    "what": f"{b['scale'][0]} traces cycling through all "
                            f"shapes, batch={b['bs']} order={b['order']}: "
                            f"{b['problem']}",
                    "input": {"scale": b["scale"], "order": b["order"]},
                    "observed": b})
                continue
            viol.append({
                "key": input_key(["C09", b["store"], b["bs"], b["order"],
                                  bool(b.get("window"))] +
                                 (["epoch"] if b.get("epoch") else [])),
                "what": f"store={b['store']} batch={b['bs']} "
                        f"order={b['order']}: {b['problem']}",
                "input": {"store": b["store"], "bs": b["bs"],
                          "order": b["order"],
                          "window": bool(b.get("window")),
                          "epoch": bool(b.get("epoch"))},
                "observed": b})
    he = None
    if nontrivial < 2:
        he = "vacuous: no store with two traces of the same shape"
    if paged == 0:
        he = "vacuous: root paging never needed a second page"
    cov = {
        "states": nstores, "transitions": n,
        "traces_validated_against_impl": n,
        "evaluations": n, "distinct_nontrivial": nontrivial,
        "rule": "every multiset of traces (shapes = all labelled rooted "
                "trees up to the node bound in every sibling listing order, "
                "2 workflow names) x 4 batch sizes x 4 ingestion orders; "
                "non-trivial = distinct stores holding two traces of the same "
                "name and the same shape up to sibling order",
        "samples": [{"store": [t for t in tasks if t["stores"]][0]["stores"][0],
                     "batch_sizes": list(BATCHES),
                     "orders": ["seq", "rev", "childfirst", "rr"]}],
        "exhaustive": True,
        "bounds": {"tier": tier,
                   "stores": "<= 2 traces of <= 3 nodes" if tier == "quick"
                   else "<= 3 traces of <= 3 nodes; <= 2 traces with one of "
                        "exactly 4 nodes"},
        "stores": nstores, "runs_needing_several_root_pages": paged,
        "runs_with_buffered_time_window": wruns,
        "scale_runs_500_to_2000_traces": sruns,
        "states_meaning": "stores (initial database contents) explored; "
                          "transitions = configurations (batch size x "
                          "ingestion order) executed on the real code",
    }
    return {"violations": viol, "coverage": cov, "harness_error": he,
            "assumptions": ["in-memory SQLite; which representative of a "
                            "shape is chosen is not constrained"]}


def replay(rec, ctx):
    i = rec["input"]
    if i.get("scale"):
        n, bad, _, _ = run_store(scale_store(i["scale"][0]),
                                 (i["scale"][1],), (i["order"],))
        return bool(bad), repr([b["problem"] for b in bad])[:300]
    if i.get("window"):
        store = [(nm, _tt(sh), pl) for nm, sh, pl in i["store"]]
        n, bad = run_window_store(store)
        bad = [b for b in bad
               if b["bs"] == i["bs"] and b["order"] == i["order"]
               and bool(b.get("epoch")) == bool(i.get("epoch"))]
        return bool(bad), repr([b["problem"] for b in bad])[:300]
    store = [(nm, _tt(sh)) for nm, sh in i["store"]]
    n, bad, _, _ = run_store(store)
    bad = [b for b in bad if b["bs"] == i["bs"] and b["order"] == i["order"]]
    return bool(bad), repr([b["problem"] for b in bad])[:300]
