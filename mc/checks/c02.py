"""C02 - learned diagram admits nothing beyond a complete sample."""
from .. import dsl
from . import pvcommon, pvsweep

ID = "C02"
LEVEL = "model_checking"
HANDLER = "mc.checks.pvsweep:handle"
TIMEOUT = 300.0
ACCEPTED_ERRORS = ()


def build(tier, ctx):
    n = 5 if tier == "quick" else 7
    defs = pvcommon.scope_defs(ctx["repo"], n)
    # staged merges are block-structured like F; bunched forks with mixed
    # OR are outside C02's exactness claim and are not included
    defs += pvcommon.extended_defs(0, staged=True, bunched=False,
                                   stretched=(4, 10) if tier == "quick"
                                   else (5, 10))
    defs += pvcommon.skeleton_defs(tier)
    tasks = [{"name": nm, "defn": dsl.to_list(d), "k": 2,
              "pres": ["canonical"], "mode": "c02"}
             for nm, d in defs]
    # the families beyond the size bound again under the reversed hash-rank
    # order of created objects (walk order of the break XORs depends on it)
    ext = [(nm, d) for nm, d in defs if nm in ("FT", "FS", "FD", "FL", "FK")]
    tasks += [{"name": nm, "defn": dsl.to_list(d), "k": 2,
               "pres": ["canonical"], "mode": "c02", "pi": "rev"}
              for nm, d in ext]
    # ... and in worker processes with other string-hash seeds
    tasks += [{"name": nm, "defn": dsl.to_list(d), "k": 2,
               "pres": ["canonical"], "mode": "c02", "seed": hs}
              for hs in (1, 2, 3) for nm, d in ext]
    # loop-free fork definitions under other alphabetical orders of their
    # event names
    for nm, d in pvcommon.scope_defs(ctx["repo"], 5 if tier == "quick" else 6,
                                     with_corpus=False):
        cs = dsl.constructs(d)
        if cs & {"and", "or", "xor"} and "loop" not in cs:
            for v in pvcommon.name_order_variants(d):
                tasks.append({"name": nm, "defn": dsl.to_list(v), "k": 2,
                              "pres": ["canonical"], "mode": "c02"})
    # ... and the loop-free bunched forks of the exact class (a branch that
    # is itself a fork: AND under OR is recovered by the weighted cover)
    from .. import fragment
    for d in fragment.F_bunched_new(5):
        if "loop" not in dsl.constructs(d) and pvcommon.bunched_exact_class(d):
            for v in [d] + pvcommon.name_order_variants(d):
                tasks.append({"name": "FB", "defn": dsl.to_list(v), "k": 2,
                              "pres": ["canonical"], "mode": "c02"})
    return tasks


def seed_of(task):
    return task.get("seed", 0)


def collect(tier, tasks, results, ctx):
    # a pipeline timeout is C01's "terminates" clause; here it is skipped
    results = [r if not r.get("_error") else
               {"runs": [], "jobs": 0, "states": 0, "transitions": 0}
               for r in results]
    bounds = {"tier": tier,
              "definitions": ("F_5" if tier == "quick" else "F_7") +
              " + 63 corpus + staged merges + kill-in-loop + lead-loop + "
              "loop-on-break-path + skeletons (counts: tasks_per_family)",
              "input": "complete J_2(D), canonical presentation; the "
              "families beyond the size bound also under the reversed "
              "hash-rank order and in processes with PYTHONHASHSEED 1..3",
              "output_language": "every job of the emitted diagram with "
              "loops bounded at 2, cap %d jobs per definition"
              % pvsweep.C02_CAP}
    rule = ("every definition D of the scope: learn from the complete job "
            "set J_2(D); enumerate every job of the emitted diagram (loops "
            "<= 2) and test membership in D by product exploration (loops of "
            "D unbounded); non-trivial = definitions with a fork or loop")
    return pvsweep.collect_generic(ID, tier, tasks, results, bounds, rule,
                                   LEVEL)


ACCEPTED_ERRORS = ("timeout",)


def replay(rec, ctx):
    return pvsweep.replay_generic(rec)
