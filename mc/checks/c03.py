"""C03 - diagram independent of order, identifiers, repeats and hash seed.

Stage A (exhaustive, no pm4py run): ingestion is order-free and idempotent -
every permutation of the job list (small job sets), three event orders, id
renaming, timestamp shift, each job supplied twice; oracle: learned model ==
reference model of the job set.
Stage B (deviation-bounded schedules): the rest of the pipeline is insensitive
to container orders - schedule = (sigma: presentation order, pi: hash-rank
permutation of created objects, s: interpreter hash seed); all single
deviations from the default plus the full reversals and their combinations;
oracle: identical (status, accepted language) for every schedule."""
import itertools

from .. import dsl, semantics, present, impl_pv, fragment
from ..findings import input_key
from . import pvcommon

ID = "C03"
LEVEL = "model_checking"
HANDLER = "mc.checks.c03:handle"
TIMEOUT = 900.0


def seed_of(task):
    return task.get("seed", 0)


# --------------------------------------------------------------------------
# Stage A
# --------------------------------------------------------------------------
def bulk_presentations(m, tier):
    """more jobs than fit one chunk of any plausible internal batching:
    one job occurs once, at the start / just past 1000 / at the end"""
    sizes = (1201,) if tier == "quick" else (1201, 2003, 501)
    return [{"bulk": [n, rare, pos]} for n in sizes for rare in range(m)
            for pos in sorted({0, 500, 1000, n - 1} & set(range(n)))]


BIG = 48   # job sets above this size: positions on a grid, not all


def grid(m, n=16):
    """<= n positions spread over range(m), both ends included"""
    if m <= n:
        return list(range(m))
    return sorted({round(i * (m - 1) / (n - 1)) for i in range(n)})


def stage_a_presentations(m, tier):
    full = m <= (5 if tier == "quick" else 6)
    idx = list(range(m))
    perms = []
    big = m > BIG
    if full:
        perms = [list(p) for p in itertools.permutations(idx)]
    else:
        perms = [idx[k:] + idx[:k] for k in (grid(m) if big else range(m))]
        perms.append(idx[::-1])
        for k in (grid(m - 1) if big else range(m - 1)):
            p = list(idx)
            p[k], p[k + 1] = p[k + 1], p[k]
            perms.append(p)
    out = []
    for p in perms:
        for eo in ("creation", "reversed", "rotated"):
            out.append({"jobs": p, "events": eo})
    for eo in ("creation", "reversed", "rotated"):
        out.append({"events": eo, "rename": True})
        out.append({"events": eo, "shift": 7919})
        out.append({"events": eo, "rename": True, "shift": 86399})
        # across a day / a leap day / a year boundary
        out.append({"events": eo, "shift": 86400 * 59 + 86399})
        out.append({"events": eo, "shift": 86400 * 365 + 86397})
        for scheme in ("ones", "shared", "numeric", "case"):
            out.append({"events": eo, "rename": scheme})
            out.append({"events": eo, "rename": scheme, "jobs": "reversed"})
        for d in (grid(m, 8) if big else range(m)):
            out.append({"events": eo, "dup": d})
    # single events of all jobs in one flat stream, grouped by jobId by the
    # tool itself (the -group-by-job path: cluster_events_by_job_id)
    for flat in ("roundrobin", "reversed", "bytype"):
        out.append({"flat": flat})
        out.append({"flat": flat, "rename": True})
    return out


def flat_cluster(pv_jobs, how):
    """mix the events of all jobs into one stream and let the tool cluster
    them by jobId"""
    from tel2puml.pv_to_puml.data_ingestion import cluster_events_by_job_id
    if how == "roundrobin":
        flat = [e for tup in itertools.zip_longest(*pv_jobs) for e in tup if e]
    elif how == "reversed":
        flat = [e for j in pv_jobs for e in j][::-1]
    else:
        flat = sorted((e for j in pv_jobs for e in j),
                      key=lambda e: (e["eventType"], e["eventId"]))
    return list(cluster_events_by_job_id(flat).values())


def stage_a(defn, tier, bulk=False):
    st = semantics.Stats()
    jobs = semantics.executions(defn, 2, st)
    ref = semantics.model_of_jobs(pvcommon.with_dummy_start(jobs))
    problems = []
    n = 0
    orders = set()
    for spec in (bulk_presentations(len(jobs), tier) if bulk else
                 stage_a_presentations(len(jobs), tier)):
        n += 1
        pv = present.present(jobs, {k: v for k, v in spec.items()
                                    if k != "flat"})
        try:
            if "flat" in spec:
                pv = flat_cluster(pv, spec["flat"])
            events = impl_pv.ingest(pv, add_dummy_start=True)
            got = impl_pv.model_value(events)
            orders.add(tuple(events))
        except Exception as e:
            problems.append(["ingest_exception", spec,
                             type(e).__name__ + ": " + str(e)[:120]])
            continue
        if got != ref:
            diff = sorted(t for t in set(ref) | set(got)
                          if ref.get(t) != got.get(t))
            problems.append(["model_depends_on_presentation", spec, diff[:4]])
            if len(problems) > 5:
                break
    return problems, n, len(jobs), len(orders), st


# --------------------------------------------------------------------------
# Stage B
# --------------------------------------------------------------------------
def sigma_specs(jobs, small):
    m = len(jobs)
    specs = [("default", {})]
    idx = list(range(m))
    pairs = list(itertools.combinations(idx, 2))
    if len(pairs) > 15:
        pairs = [(k, k + 1) for k in
                 (grid(m - 1) if m > BIG else range(m - 1))]
    for i, j in pairs:
        p = list(idx)
        p[i], p[j] = p[j], p[i]
        specs.append((f"jobs{i}<>{j}", {"jobs": p}))
    # transpositions of two events inside the first job's list
    n0 = len(jobs[0])
    epairs = list(itertools.combinations(range(n0), 2))
    if len(epairs) > 10:
        epairs = [(k, k + 1) for k in range(n0 - 1)]
    for i, j in epairs:
        o = list(range(n0))
        o[i], o[j] = o[j], o[i]
        specs.append((f"ev{i}<>{j}", {"first_job_events": o}))
    specs.append(("jobs_rev", {"jobs": "reversed"}))
    specs.append(("all_rev", {"jobs": "reversed", "events": "reversed"}))
    if small == "perm" and m <= 3:
        for p in itertools.permutations(idx):
            for o in itertools.permutations(range(len(jobs[p[0]]))):
                specs.append((f"P{p}{o}", {"jobs": list(p),
                                           "first_job_events": list(o)}))
    return specs


def pi_specs(ntypes, small):
    out = [("rev", "rev")]
    if small:
        for i, j in itertools.combinations(range(ntypes + 1), 2):
            out.append((f"swap{i}_{j}", ["swap", i, j]))
    return out


def fp_of(res):
    if res["status"] != "ok":
        return "fail"
    f = pvcommon.fingerprint(res["text"])
    return "fail" if f == "unparseable" else f


_probe = {"installed": False, "orders": []}


def install_probes():
    """record iteration orders at three probe points (vacuity guard)"""
    if _probe["installed"]:
        return
    _probe["installed"] = True
    import tel2puml.loop_detection.detect_loops as dl
    orig = dl.strongly_connected_components

    def spy(g):
        res = list(orig(g))
        _probe["orders"].append(("scc", tuple(tuple(sorted(
            e.event_type for e in s)) for s in res)))
        _probe["orders"].append(("scc_members", tuple(tuple(
            e.event_type for e in s) for s in res)))
        return iter(res)
    dl.strongly_connected_components = spy
    import tel2puml.events as ev
    orig_graph = ev.create_graph_from_events

    def spy2(events):
        events = list(events)
        _probe["orders"].append(("event_order",
                                 tuple(e.event_type for e in events)))
        return orig_graph(events)
    ev.create_graph_from_events = spy2
    import tel2puml.pv_to_puml.pv_to_puml as pp
    pp.create_graph_from_events = spy2


def stage_b(defn, seed, small):
    impl_pv.imports()
    install_probes()
    st = semantics.Stats()
    jobs = semantics.executions(defn, 2, st)
    ntypes = len({t for j in jobs for _, t, _ in j})
    runs = []

    def run(sname, sspec, pname, pi):
        _probe["orders"].clear()
        pv = present.present(jobs, sspec)
        res = impl_pv.run_pipeline(pv, "x", pi)
        runs.append({"sigma": sname, "sspec": sspec, "pi": pname,
                     "pispec": pi, "seed": seed, "fp": fp_of(res),
                     "status": res["status"],
                     "orders": hash(tuple(_probe["orders"]))})
    if seed == 0:
        for sname, sspec in sigma_specs(jobs, small):
            run(sname, sspec, "id", "id")
        for pname, pi in pi_specs(ntypes, small):
            run("default", {}, pname, pi)
        run("all_rev", {"jobs": "reversed", "events": "reversed"}, "rev", "rev")
    else:
        for sname, sspec in (("default", {}),
                             ("all_rev", {"jobs": "reversed",
                                          "events": "reversed"})):
            for pname, pi in (("id", "id"), ("rev", "rev")):
                run(sname, sspec, pname, pi)
    return runs, len(jobs)


def handle(task):
    if task["kind"] == "A":
        out = []
        for nm, d in task["defs"]:
            problems, n, m, norders, st = stage_a(dsl.to_tuple(d),
                                                  task["tier"],
                                                  task.get("bulk", False))
            out.append({"name": nm, "defn": d, "problems": problems, "n": n,
                        "jobs": m, "dict_orders": norders,
                        "states": st.states, "transitions": st.transitions})
        return {"kind": "A", "out": out}
    runs, m = stage_b(dsl.to_tuple(task["defn"]), task["seed"],
                      task["small"])
    return {"kind": "B", "runs": runs, "jobs": m}


def build(tier, ctx):
    tasks = []
    nA = 5 if tier == "quick" else 6
    defsA = pvcommon.scope_defs(ctx["repo"], nA)
    rep = [("FR", d) for d in fragment.repeated_event_family()]
    rep += fragment.corpus_multiple_same(ctx["repo"])
    rep += [("FC", d) for d in
            fragment.branch_count_family(full=(tier == "thorough"))]
    rep += [("FD", d) for d in fragment.kill_in_loop_family()]
    rep += [("FS", d) for d in fragment.staged_merge_family()]
    # long sequences: many more created objects between fork and merge
    rep += [("FX", d) for d in fragment.stretched_family(
        3 if tier == "quick" else 4, 10)]
    defsA += rep
    for i in range(0, len(defsA), 4):
        tasks.append({"kind": "A", "tier": tier,
                      "defs": [(nm, dsl.to_list(d))
                               for nm, d in defsA[i:i + 4]]})
    # bulk streams (> 1000 jobs) for the smallest definitions
    for nm, d in pvcommon.scope_defs(ctx["repo"],
                                     3 if tier == "quick" else 4,
                                     with_corpus=False):
        if dsl.constructs(d):
            tasks.append({"kind": "A", "tier": tier, "bulk": True,
                          "defs": [(nm, dsl.to_list(d))]})
    if tier == "quick":
        nB, nsmall, seeds = 4, 4, range(4)
    else:
        nB, nsmall, seeds = 6, 5, range(16)
    for nm, d in pvcommon.scope_defs(ctx["repo"], nB) + rep:
        ne = len(dsl.event_names(d))
        small = False
        if nm == "F" and ne <= nsmall:
            small = "perm" if ne <= nsmall - 1 else True
        if nm == "FR":
            small = True
        if nm == "FC":
            small = False
        for s in seeds:
            tasks.append({"kind": "B", "name": nm, "defn": dsl.to_list(d),
                          "seed": s, "small": small})
    return tasks


def collect(tier, tasks, results, ctx):
    viol = []
    evalsA = evalsB = bulk = 0
    capped = set()
    states = trans = traces = 0
    dict_orders = 0
    by_def = {}
    for t, r in zip(tasks, results):
        if r["kind"] == "A":
            for o in r["out"]:
                if o["jobs"] > BIG:
                    capped.add(input_key(o["defn"]))
                if t.get("bulk"):
                    bulk += o["n"]
                evalsA += o["n"]
                states += o["states"]
                trans += o["transitions"]
                traces += o["n"]
                if o["dict_orders"] > 1:
                    dict_orders += 1
                for p in o["problems"]:
                    viol.append({
                        "key": input_key(["C03A", o["defn"], p[0]]),
                        "what": f"{o['name']} "
                                f"{dsl.show(dsl.to_tuple(o['defn']))} "
                                f"presentation={p[1]}: {p[0]} {p[2]}",
                        "input": {"stage": "A", "defn": o["defn"],
                                  "presentation": p[1]},
                        "observed": p})
        else:
            by_def.setdefault(input_key(t["defn"]),
                              {"task": t, "runs": []})["runs"] += r["runs"]
            if r.get("jobs", 0) > BIG:
                capped.add(input_key(t["defn"]))
    unstable = 0
    steered = 0
    nontrivial = 0
    samples = []
    for k, d in by_def.items():
        runs = d["runs"]
        evalsB += len(runs)
        traces += len(runs)
        fps = {}
        for r in runs:
            fps.setdefault(r["fp"], []).append(r)
        if len({r["orders"] for r in runs}) > 1:
            steered += 1
        if dsl.constructs(dsl.to_tuple(d["task"]["defn"])):
            nontrivial += 1
        if len(samples) < 3 and len(runs) > 20:
            samples.append({
                "definition": dsl.show(dsl.to_tuple(d["task"]["defn"])),
                "schedules": len(runs),
                "distinct_iteration_order_signatures":
                    len({r["orders"] for r in runs}),
                "example_schedule": {"sigma": runs[3]["sigma"],
                                     "pi": runs[3]["pi"],
                                     "seed": runs[3]["seed"]}})
        if len(fps) > 1:
            unstable += 1
            groups = sorted(fps.items(), key=lambda kv: -len(kv[1]))
            a = groups[0][1][0]
            b = groups[1][1][0]
            viol.append({
                "key": input_key(["C03B", d["task"]["defn"]]),
                "what": f"{d['task'].get('name')} "
                        f"{dsl.show(dsl.to_tuple(d['task']['defn']))}: "
                        f"{len(fps)} different outcomes across schedules, "
                        f"e.g. (sigma={a['sigma']}, pi={a['pi']}, "
                        f"seed={a['seed']}) -> {a['fp'][:8]} but "
                        f"(sigma={b['sigma']}, pi={b['pi']}, "
                        f"seed={b['seed']}) -> {b['fp'][:8]}",
                "input": {"stage": "B", "defn": d["task"]["defn"],
                          "schedule_a": {k2: a[k2] for k2 in
                                         ("sspec", "pispec", "seed")},
                          "schedule_b": {k2: b[k2] for k2 in
                                         ("sspec", "pispec", "seed")}},
                "observed": {fp: len(v) for fp, v in fps.items()}})
    he = None
    if steered == 0:
        he = "vacuous: no schedule changed any observed iteration order"
    if dict_orders == 0:
        he = "vacuous: no presentation changed the order of first appearance"
    cov = {
        "states": states + len(by_def), "transitions": trans + evalsB,
        "traces_validated_against_impl": traces,
        "evaluations": evalsA + evalsB, "distinct_nontrivial": nontrivial,
        "rule": "Stage A: every definition x every permutation of the job "
                "list (<= 5/6 jobs; rotations, reversal, adjacent "
                "transpositions above) x 3 event orders, plus renaming, "
                "time shift and each single job duplicated; Stage B: every "
                "definition x schedules (sigma, pi, seed) with <= 1 deviation "
                "from the default plus full reversals and their "
                "combinations, one worker process per hash seed; "
                "non-trivial = Stage-B definitions with a fork or loop",
        "samples": samples or [{"note": "no definition with > 20 schedules"}],
        "exhaustive": True,
        "capped": bool(capped),
        "definitions_with_positions_on_a_grid": len(capped),
        "cap": "job sets of more than %d jobs: rotations, adjacent "
               "transpositions and duplicated jobs at <= 16 (8) positions "
               "spread over the job list instead of every position" % BIG,
        "bounds": {"tier": tier,
                   "stage_A": ("F_5" if tier == "quick" else "F_6") +
                   " + corpus + families (repeated events, branch counts, "
                   "kill-in-loop, staged merges, stretched); bulk streams "
                   "of 1201 (thorough also 501, 2003) jobs with one job "
                   "occurring once at position 0 / 500 / 1000 / last for "
                   "F_3 (F_4)",
                   "stage_B": ("F_4" if tier == "quick" else "F_6") +
                   " + corpus + the same families, seeds " +
                   ("0..3" if tier == "quick" else "0..15"),
                   "pi": "identity, reversal, every transposition of two "
                         "event ranks (small definitions)",
                   "sigma_all_permutations": "definitions with <= 3 jobs and "
                   "<= 3 (quick) / 4 (thorough) events"},
        "stage_A_ingestions": evalsA,
        "stage_A_bulk_stream_ingestions": bulk, "stage_B_pipeline_runs": evalsB,
        "stage_B_definitions": len(by_def),
        "definitions_where_a_schedule_changed_an_iteration_order": steered,
        "definitions_where_presentation_changed_dict_order": dict_orders,
        "unstable_definitions": unstable,
    }
    return {"violations": viol, "coverage": cov, "harness_error": he,
            "assumptions": pvcommon.ASSUMPTIONS + [
                "hash seeds are a fixed window of 2^32; pi and sigma beyond "
                "one transposition (plus the full reversals) are explored "
                "only for the smallest definitions"]}


def replay(rec, ctx):
    import json
    import os
    import subprocess
    import sys
    i = rec["input"]
    defn = dsl.to_tuple(i["defn"])
    if i["stage"] == "A":
        jobs = semantics.executions(defn, 2)
        ref = semantics.model_of_jobs(pvcommon.with_dummy_start(jobs))
        pv = present.present(jobs, i["presentation"])
        got = impl_pv.model_value(impl_pv.ingest(pv, add_dummy_start=True))
        return got != ref, "learned model differs from the reference"
    fps = []
    for sch in (i["schedule_a"], i["schedule_b"]):
        env = dict(os.environ, PYTHONHASHSEED=str(sch["seed"]))
        code = ("import json,sys;from mc import pool;pool.worker_setup();"
                "from mc import dsl,semantics,present,impl_pv;"
                "from mc.checks import c03;"
                "a=json.loads(sys.argv[1]);"
                "jobs=semantics.executions(dsl.to_tuple(a['defn']),2);"
                "pv=present.present(jobs,a['sspec']);"
                "pi=a['pispec'];pi=pi if isinstance(pi,str) else list(pi);"
                "print('FP',c03.fp_of(impl_pv.run_pipeline(pv,'x',pi)))")
        arg = json.dumps({"defn": i["defn"], "sspec": sch["sspec"],
                          "pispec": sch["pispec"]})
        r = subprocess.run([sys.executable, "-c", code, arg], env=env,
                           capture_output=True, text=True)
        lines = [ln for ln in r.stdout.splitlines() if ln.startswith("FP ")]
        fps.append(lines[-1] if lines else "ERR " + r.stderr[-200:])
    return fps[0] != fps[1], f"{fps[0]} vs {fps[1]}"
