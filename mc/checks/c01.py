"""C01 - learned diagram accepts every job it was learned from."""
import itertools

from .. import dsl, fragment, semantics
from . import pvcommon, pvsweep

ID = "C01"
LEVEL = "model_checking"
HANDLER = "mc.checks.pvsweep:handle"
TIMEOUT = 180.0
ACCEPTED_ERRORS = ("timeout",)


def build(tier, ctx):
    tasks = []
    pres = ["canonical", "reversed", "rotated"]
    if tier == "quick":
        defs = pvcommon.scope_defs(ctx["repo"], 5)
        defs += pvcommon.extended_defs(5)
        defs += [("FE", d) for d in fragment.silent_break_family()]
        defs += pvcommon.skeleton_defs(tier)
        for nm, d in defs:
            tasks.append({"name": nm, "defn": dsl.to_list(d), "k": 2,
                          "pres": pres, "mode": "c01"})
    else:
        defs = pvcommon.scope_defs(ctx["repo"], 7)
        defs += pvcommon.extended_defs(6, stretched=(5, 10),
                                       widths=(4, 5, 6, 7, 8))
        defs += [("FX", d) for d in fragment.stretched_family(4, 17)]
        defs += [("FE", d) for d in fragment.silent_break_family()]
        defs += pvcommon.skeleton_defs(tier)
        for nm, d in defs:
            tasks.append({"name": nm, "defn": dsl.to_list(d), "k": 2,
                          "pres": pres, "mode": "c01"})
        # loops run up to three times for the small definitions
        for nm, d in pvcommon.scope_defs(ctx["repo"], 5, with_corpus=False):
            if dsl.depth_has_loop(d):
                tasks.append({"name": nm, "defn": dsl.to_list(d), "k": 3,
                              "pres": ["canonical"], "mode": "c01"})
    # the families beyond the size bound also in worker processes with
    # other string-hash seeds
    for hs in (1, 2, 3):
        for nm, d in pvcommon.extended_defs(0, staged=True, bunched=False,
                                            stretched=None):
            tasks.append({"name": nm, "defn": dsl.to_list(d), "k": 2,
                          "pres": ["canonical"], "mode": "c01", "seed": hs})
    # wave 14: fork definitions of F_4 under event names of which one is the
    # joined spelling of others
    for mp, names in pvcommon.joined_name_maps(("_", ",", "")).items():
        for nm, d in pvcommon.scope_defs(ctx["repo"], 4, with_corpus=False):
            if dsl.constructs(d) & {"and", "or", "xor"}:
                tasks.append({"name": nm, "defn": dsl.to_list(d), "k": 2,
                              "pres": ["canonical"], "mode": "c01",
                              "names": names, "names_map": mp})
    # bulk evidence: more than a thousand jobs in one run
    for nm, d in pvcommon.scope_defs(ctx["repo"], 3 if tier == "quick" else 4,
                                     with_corpus=False):
        if dsl.constructs(d):
            tasks.append({"name": nm, "defn": dsl.to_list(d), "k": 2,
                          "pres": ["bulk"], "mode": "c01"})
    # incomplete evidence: the property quantifies over *all* finite job
    # sets of a definition, not only the complete one
    nsub = 5 if tier == "quick" else 6
    for nm, d in pvcommon.scope_defs(ctx["repo"], nsub, with_corpus=False):
        if tier == "quick" and len(dsl.event_names(d)) == 5 and \
                (dsl.constructs(d) & {"loop", "detach", "break"}):
            continue   # quick: F_4 in full, F_5 fork-only definitions
        m = len(semantics.executions(d, 2))
        idx = range(m)
        if m <= 7:
            subs = [list(c) for r in range(1, m)
                    for c in itertools.combinations(idx, r)]
        elif m <= 16:
            subs = [[i] for i in idx] + \
                   [[j for j in idx if j != i] for i in idx]
        else:
            subs = []
        for i in range(0, len(subs), 24):
            tasks.append({"name": nm, "defn": dsl.to_list(d), "k": 2,
                          "mode": "c01sub", "subsets": subs[i:i + 24]})
    # feature-defined subsets (loops once / via break / OR single ...) for
    # the definitions that are too large for all subsets
    done = {t["name"] + repr(t["defn"]) for t in tasks
            if t["mode"] == "c01sub"}
    fdefs = pvcommon.scope_defs(ctx["repo"], 5 if tier == "quick" else 7,
                                with_corpus=False)
    fdefs += pvcommon.skeleton_defs(tier)
    fdefs += pvcommon.extended_defs(0, staged=True, bunched=False,
                                    leadloop=5, stretched=None)
    for nm, d in fdefs:
        if nm + repr(dsl.to_list(d)) in done:
            continue
        jobs = semantics.executions(d, 2)
        subs = [idx for _, idx in pvcommon.feature_subsets(d, jobs)]
        if subs:
            tasks.append({"name": nm, "defn": dsl.to_list(d), "k": 2,
                          "mode": "c01sub", "subsets": subs})
    return tasks


def collect(tier, tasks, results, ctx):
    bounds = {"tier": tier,
              "definitions": ("F_5 + 63 corpus + bunched forks <= 5 events "
                              "+ staged merges + kill-in-loop + lead-loop "
                              "+ loop-on-break-path + nesting-chain "
                              "skeletons of 7-8 events with a break"
                              if tier == "quick" else
                              "F_7 + 63 corpus + bunched forks <= 6 events "
                              "+ staged merges + kill-in-loop + lead-loop "
                              "+ loop-on-break-path + all 3-block skeletons "
                              "with 8 events; k=3 for loop definitions "
                              "of F_5") + " (counts: tasks_per_family)",
              "presentations": ["canonical", "reversed", "rotated",
                                "bulk (1201 jobs, one job once at position "
                                "1000) for F_3 (thorough F_4)"],
              "loop_bound_k": 2,
              "incomplete_evidence": "every proper non-empty subset of "
              "J_2(D) for |J| <= 7, singletons and leave-one-out for "
              "|J| <= 16, feature-defined subsets (loops once / "
              "via break / OR single / OR all / detached) for every other "
              "definition of the scope; all-subsets D in " + ("F_4 and the fork-only definitions of F_5"
                                   if tier == "quick" else "F_6")}
    rule = ("every definition of fragment F up to the bound and every corpus "
            "definition; complete job set with each loop run 1..k times; "
            "three presentations; the emitted diagram is explored in product "
            "with every input job (accepts); non-trivial = distinct "
            "definitions containing at least one fork or loop")
    return pvsweep.collect_generic(ID, tier, tasks, results, bounds, rule,
                                   LEVEL)


def seed_of(task):
    return task.get("seed", 0)


def replay(rec, ctx):
    return pvsweep.replay_generic(rec)
