"""C01 - learned diagram accepts every job it was learned from."""
from .. import dsl
from . import pvcommon, pvsweep

ID = "C01"
LEVEL = "model_checking"
HANDLER = "mc.checks.pvsweep:handle"
TIMEOUT = 180.0
ACCEPTED_ERRORS = ("timeout",)


def build(tier, ctx):
    tasks = []
    pres = ["canonical", "reversed", "rotated"]
    if tier == "quick":
        defs = pvcommon.scope_defs(ctx["repo"], 5)
        for nm, d in defs:
            tasks.append({"name": nm, "defn": dsl.to_list(d), "k": 2,
                          "pres": pres, "mode": "c01"})
    else:
        defs = pvcommon.scope_defs(ctx["repo"], 7)
        for nm, d in defs:
            tasks.append({"name": nm, "defn": dsl.to_list(d), "k": 2,
                          "pres": pres, "mode": "c01"})
        # loops run up to three times for the small definitions
        for nm, d in pvcommon.scope_defs(ctx["repo"], 5, with_corpus=False):
            if dsl.depth_has_loop(d):
                tasks.append({"name": nm, "defn": dsl.to_list(d), "k": 3,
                              "pres": ["canonical"], "mode": "c01"})
    return tasks


def collect(tier, tasks, results, ctx):
    bounds = {"tier": tier,
              "definitions": "F_5 + 63 corpus" if tier == "quick"
              else "F_7 + 63 corpus; k=3 for loop definitions of F_5",
              "presentations": ["canonical", "reversed", "rotated"],
              "loop_bound_k": 2}
    rule = ("every definition of fragment F up to the bound and every corpus "
            "definition; complete job set with each loop run 1..k times; "
            "three presentations; the emitted diagram is explored in product "
            "with every input job (accepts); non-trivial = distinct "
            "definitions containing at least one fork or loop")
    return pvsweep.collect_generic(ID, tier, tasks, results, bounds, rule,
                                   LEVEL)


def replay(rec, ctx):
    return pvsweep.replay_generic(rec)
