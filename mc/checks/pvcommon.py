"""Shared pieces of the pv2puml-side checks."""
from .. import dsl, fragment, semantics, present, impl_pv

ASSUMPTIONS = [
    "janus (test_event_generator) is absent; /verif/shim provides "
    "GraphSolution.from_event_list / EventSolution, bound to the model by "
    "checking the learned successor/predecessor multisets against the "
    "reference model on every replayed job set",
    "diagram semantics of DESIGN 6.1 (break leaves the innermost repeat; "
    "detach ends a path; OR takes any non-empty subset; branch counts out of "
    "scope)",
    "pm4py 2.7.9.4, networkx as installed in /venv",
]

START = '|||START|||'


def with_dummy_start(jobs):
    out = []
    for job in jobs:
        nj = [(0, START, ())]
        for i, t, ps in job:
            nj.append((i + 1, t, tuple(p + 1 for p in ps) if ps else (0,)))
        out.append(nj)
    return out


def loop_bodies(defn):
    """event types of every loop body of a definition (break branches incl.)"""
    out = []

    def walk(seq):
        for it in seq:
            if it[0] == 'loop':
                # types inside the body that are not in break branches
                out.append(frozenset(_body_core(it[1])))
                walk(it[1])
            elif it[0] in ('and', 'or', 'xor'):
                for b in it[1]:
                    walk(b)
    walk(defn)
    return out


def _body_core(seq):
    acc = []
    for it in seq:
        if it[0] == 'ev':
            acc.append(it[1])
        elif it[0] == 'loop':
            acc.extend(_body_core(it[1]))
        elif it[0] in ('and', 'or', 'xor'):
            for b in it[1]:
                if b and b[-1] == ('break',):
                    continue
                acc.extend(_body_core(b))
    return acc


def scope_defs(repo, nmax, with_corpus=True, nmin=1, fork_depth=3):
    defs = [("F", d) for d in fragment.F(nmax, fork_depth=fork_depth,
                                         nmin=nmin)]
    if with_corpus:
        defs += list(fragment.corpus(repo))
    return defs


def extended_defs(nb, staged=True, bunched=True, leadloop=None,
                  stretched=(4, 10), widths=(4, 5, 6)):
    """definitions beyond fragment F whose job sets the tool must handle just
    the same (general statements of C01/C05): bunched forks (as in the
    corpus' bunched_* cases) with <= nb events and the staged-merge family"""
    out = []
    if bunched:
        out += [("FB", d) for d in fragment.F_bunched_new(nb)]
    if staged:
        out += [("FS", d) for d in fragment.staged_merge_family()]
        # branches that die inside a loop body
        out += [("FD", d) for d in fragment.kill_in_loop_family()]
    if staged:
        # two or three separate break XORs in one loop body (inside F, but
        # >= 8 events)
        out += [("FT", d) for d in fragment.sibling_breaks_family()]
    if staged and widths:
        # forks with more branches than F allows
        out += [("FW", d) for d in fragment.wide_fork_family(widths)]
    if stretched:
        # long sequences: the block structures of F_n with every event drawn
        # out to a chain, so that fork, merge and loop ends lie far apart
        out += [("FX", d) for d in fragment.stretched_family(*stretched)]
    if leadloop is None:
        leadloop = max(nb, 5)
    if leadloop:
        # loop bodies that begin with an inner loop (shared start event)
        out += [("FL", d) for d in fragment.F_leadloop(leadloop)]
        # exit path of a loop that begins with a loop of its own
        out += [("FK", d) for d in
                fragment.loop_on_break_path_family(leadloop)]
    return out


def skeleton_defs(tier):
    """slices of F_8 reached through structure instead of size (DESIGN 13)"""
    if tier == "quick":
        return [("K", d) for n in (7, 8)
                for d in fragment.skeletons(n, 3, chain=True, min_breaks=1)]
    return [("K", d) for d in fragment.skeletons(8, 3)]


def feature_subsets(defn, jobs):
    """job subsets defined by a behavioural feature (incomplete evidence on
    definitions too large for all 2^m subsets): loops run once only / some
    loop run twice; left through a break / never through a break; every OR
    takes one branch / every OR takes all its branches; detached / not.
    Returns distinct proper non-empty index lists."""
    break_types, detach_types = set(), set()
    ors = []

    def first_types(seq):
        for it in seq:
            if it[0] == 'ev':
                return {it[1]}
            if it[0] in ('and', 'or', 'xor'):
                acc = set()
                for b in it[1]:
                    acc |= first_types(b)
                return acc
            if it[0] == 'loop':
                return first_types(it[1])
        return set()

    def walk(seq):
        for it in seq:
            if it[0] == 'loop':
                walk(it[1])
            elif it[0] in ('and', 'or', 'xor'):
                if it[0] == 'or':
                    ors.append([first_types(b) for b in it[1]])
                for b in it[1]:
                    if b and b[-1] == ('break',):
                        break_types.update(dsl.event_names(b))
                    if b and b[-1] == ('detach',):
                        detach_types.update(dsl.event_names(b)[-1:])
                    walk(b)
    walk(defn)
    feats = {}
    for i, job in enumerate(jobs):
        types = [t for _, t, _ in job]
        tset = set(types)
        once = len(types) == len(tset)
        feats.setdefault("loops_once" if once else "loop_twice", []).append(i)
        if break_types:
            feats.setdefault("via_break" if tset & break_types
                             else "no_break", []).append(i)
        if detach_types:
            feats.setdefault("detached" if tset & detach_types
                             else "not_detached", []).append(i)
        if ors:
            taken = [sum(1 for ft in o if ft & tset) for o in ors]
            live = [(k, len(o)) for k, o in zip(taken, ors) if k > 0]
            if live and all(k == 1 for k, _ in live):
                feats.setdefault("or_single", []).append(i)
            if live and all(k == n for k, n in live):
                feats.setdefault("or_all", []).append(i)
            if live and all(k >= 2 for k, _ in live):
                feats.setdefault("or_multi", []).append(i)
    out, seen = [], set()
    for name, idx in sorted(feats.items()):
        key = tuple(idx)
        if 0 < len(idx) < len(jobs) and key not in seen:
            seen.add(key)
            out.append((name, idx))
    return out


def construct_tags(defn):
    return sorted(dsl.constructs(defn))


def run_def(defn, k, pres_spec=None, pi=None, name="x"):
    """generate jobs, present, run the real pipeline.  returns
    (jobs, result dict, stats)"""
    st = semantics.Stats()
    jobs = semantics.executions(defn, k, st)
    pv = present.present(jobs, pres_spec)
    res = impl_pv.run_pipeline(pv, name, pi)
    return jobs, res, st


def parse_output(text):
    """tolerant parse; returns (ast or None, error)"""
    try:
        return dsl.parse_puml(text), None
    except (dsl.ParseError, Exception) as e:  # noqa
        return None, type(e).__name__ + ": " + str(e)[:200]


def fingerprint(text, k=2, cap=20000):
    """(status, language hash) of an emitted diagram"""
    import hashlib
    ast, err = parse_output(text)
    if ast is None:
        return "unparseable"
    try:
        lang = semantics.language(ast, k, cap=cap)
    except semantics.TooMany:
        return "toolarge"
    return hashlib.sha1(repr(sorted(lang)).encode()).hexdigest()


def types_at_several_loop_positions(defn):
    """event names that the *source definition* places at two syntactic
    positions with different enclosing loops (only possible in the corpus:
    F has distinct names).  No nesting can hold such a type exactly once."""
    pos = {}
    counter = [0]

    def walk(seq, path):
        for it in seq:
            if it[0] == 'ev':
                pos.setdefault(it[1], set()).add(path)
            elif it[0] == 'loop':
                counter[0] += 1
                walk(it[1], path + (counter[0],))
            elif it[0] in ('and', 'or', 'xor'):
                for b in it[1]:
                    walk(b, path)
    walk(defn, ())
    return {t for t, ps in pos.items() if len(ps) > 1}


def joined_name_maps(seps=(",", " ", "", "_", "|", "->")):
    """wave 14: event type names of which one is the joined spelling of two
    others (or of one other, twice) for the separators code commonly joins
    with; the joined name stands before, between and after its parts"""
    out = {}
    for k, sep in enumerate(seps):
        a, b = "read", "write"
        ab, ba, aa = a + sep + b, b + sep + a, a + sep + a
        for v, names in enumerate(([a, b, ab, ba], [ab, a, b, ba],
                                   [a, ab, b, aa], ["s", a, aa, b])):
            m = dict(zip("ABCD", names))
            m.update(E="e", F="f", G="g", H="h")
            out[f"joined{k}.{v}"] = m
    return out


def name_order_variants(defn):
    """wave 14: the definition under every adjacent transposition of the
    alphabetical order of its event names, and under the reversed order (the
    canonical naming is depth-first, so the events of one branch are always
    alphabetical neighbours; here they are not)"""
    names = sorted(dsl.event_names(defn))
    out = []
    for i in range(len(names) - 1):
        m = {names[i]: names[i + 1], names[i + 1]: names[i]}
        out.append(dsl.map_names(defn, m))
    out.append(dsl.map_names(defn, dict(zip(names, reversed(names)))))
    return out


def _gate(branch):
    """gate tree of a fork branch: a branch that consists of one fork block
    only is that gate (bunched logic), anything else counts as a leaf"""
    if len(branch) == 1 and branch[0][0] in ('and', 'or', 'xor'):
        op = branch[0][0]
        ch = []
        for b in branch[0][1]:
            g = _gate(b)
            if g != 'leaf' and g[0] == op:
                ch.extend(g[1])          # OR in OR, AND in AND: one gate
            else:
                ch.append(g)
        return (op, ch)
    return 'leaf'


def bunched_exact_class(defn):
    """bunched definitions on which C02's exactness is claimed (cf. C06's
    class, widened by the AND-under-OR recovery the property names): every OR
    gate joins plain events or AND gates of plain events, an OR gate with an
    AND child does not sit under an AND gate, no AND gate has two OR children"""
    def ok(g, under_and):
        if g == 'leaf':
            return True
        op, ch = g
        if op == 'or':
            for c in ch:
                if c != 'leaf' and not (c[0] == 'and' and
                                        all(x == 'leaf' for x in c[1])):
                    return False
            if under_and and any(c != 'leaf' for c in ch):
                return False
        if op == 'and' and sum(1 for c in ch
                               if c != 'leaf' and c[0] == 'or') >= 2:
            return False
        return all(ok(c, under_and or op == 'and') for c in ch)

    def walk(seq):
        for it in seq:
            if it[0] in ('and', 'or', 'xor'):
                if not ok(_gate((it,)), False):
                    return False
                for b in it[1]:
                    if not walk(b):
                        return False
            elif it[0] == 'loop':
                if not walk(it[1]):
                    return False
        return True
    return walk(defn)
