"""C13 - field-mapping extraction follows the documented path semantics.

Deviation-bounded exploration: default document (2 resource groups x 2 scope
groups x 2 spans) with every combination of <= d document deviations, x
mappings that deviate from the documented "Example 4" in <= 2 fields, x
{whole file, one JSON per line}.  Real code: JSONDataSource (config -> jq text
-> compiled jq -> records -> OTelEvent).  Oracle: mc.jqref."""
import copy
import itertools
import json
import os
import shutil

from .. import impl_otel, jqref
from ..findings import input_key

ID = "C13"
LEVEL = "exploration"
HANDLER = "mc.checks.c13:handle"
TIMEOUT = 900.0
P = "resource_spans.[].scope_spans.[].spans.[]."
RES = "resource_spans.[].resource.attributes.[].key"
SCOPE = "resource_spans.[].scope_spans.[].scope.name"
ATTR = P + "attributes.[].key"


def plain(path):
    return {"key_paths": [path], "value_type": "string"}


def kv(path, key, valp):
    return {"key_paths": [path], "key_value": [key], "value_paths": [valp],
            "value_type": "string"}


SV = "value.Value.StringValue"
IV = "value.Value.IntValue"
MAP_EX4 = {
    "job_name": kv(RES, "service.name", SV),
    "job_id": plain(P + "trace_id"),
    "event_type": {"key_paths": [P + "name", [P + "not_here", ATTR]],
                   "key_value": [None, [None, "http.response"]],
                   "value_paths": [None, [None, IV]],
                   "value_type": "string"},
    "event_id": plain(P + "span_id"),
    "start_timestamp": plain(P + "start_time_unix_nano"),
    "end_timestamp": plain(P + "end_time_unix_nano"),
    "application_name": plain(SCOPE),
    "parent_event_id": plain(P + "parent_span_id"),
}
# per-field alternatives built from the documented forms
ALTS = {
    "event_type": [
        plain(P + "name"),
        kv(ATTR, "http.method", SV),
        plain(SCOPE),
        {"key_paths": [P + "name", ATTR], "key_value": [None, "http.response"],
         "value_paths": [None, IV], "value_type": "string"},
        {"key_paths": [P + "name", SCOPE, ATTR],
         "key_value": [None, None, "http.method"],
         "value_paths": [None, None, SV], "value_type": "string"},
        {"key_paths": [[P + "not_here", P + "name"]], "value_type": "string"},
        {"key_paths": [[P + "name", P + "span_id"]], "value_type": "string"},
        {"key_paths": [[ATTR, P + "name"]], "key_value": [["no.such", None]],
         "value_paths": [[SV, None]], "value_type": "string"},
        # the same attribute looked up twice with different value paths:
        # priority fall-back StringValue -> IntValue, and a concatenation of
        # two sub-values of one attribute
        {"key_paths": [[ATTR, ATTR]],
         "key_value": [["http.response", "http.response"]],
         "value_paths": [[SV, IV]], "value_type": "string"},
        {"key_paths": [ATTR, ATTR],
         "key_value": ["http.method", "http.method"],
         "value_paths": [SV, "key"], "value_type": "string"},
    ],
    "job_name": [
        kv(RES, "service.version", SV),
        {"key_paths": [RES, RES],
         "key_value": ["service.name", "service.version"],
         "value_paths": [SV, SV], "value_type": "string"},
        plain(P + "trace_id"),
        {"key_paths": [[RES, RES]],
         "key_value": [["service.absent", "service.name"]],
         "value_paths": [[SV, SV]], "value_type": "string"},
        {"key_paths": [[RES, RES]],
         "key_value": [["service.name", "service.name"]],
         "value_paths": [[IV, SV]], "value_type": "string"},
    ],
    "application_name": [
        plain(P + "name"),
        # leaf key named like an array on its own path
        plain(P + "spans"),
        kv(RES, "service.version", SV),
        {"key_paths": [SCOPE, P + "span_id"], "value_type": "string"},
    ],
    "job_id": [
        {"key_paths": [P + "trace_id", P + "span_id"], "value_type": "string"},
        {"key_paths": [[P + "not_here", P + "trace_id"]],
         "value_type": "string"},
    ],
    "parent_event_id": [
        {"key_paths": [[P + "parent_span_id", P + "not_here"]],
         "value_type": "string"},
    ],
}


def mappings(max_fields):
    out = [("ex4", MAP_EX4)]
    fields = sorted(ALTS)
    for f in fields:
        for i, alt in enumerate(ALTS[f]):
            m = dict(MAP_EX4)
            m[f] = alt
            out.append((f"{f}#{i}", m))
    if max_fields >= 2:
        for f, g in itertools.combinations(fields, 2):
            for i, a in enumerate(ALTS[f]):
                for j, b in enumerate(ALTS[g]):
                    m = dict(MAP_EX4)
                    m[f] = a
                    m[g] = b
                    out.append((f"{f}#{i}+{g}#{j}", m))
    return out


def default_doc(tag=""):
    def attrs(i):
        return [{"key": "http.method",
                 "value": {"Value": {"StringValue": "GET"}}},
                {"key": "http.response",
                 "value": {"Value": {"IntValue": "20%d" % i}}}]

    def span(r, s, p):
        i = r * 4 + s * 2 + p
        return {"trace_id": f"{tag}t{i}", "span_id": f"{tag}s{i}",
                "parent_span_id": None if p == 0 else f"{tag}s{i-1}",
                "name": f"/n{i}", "spans": f"inner{i}",
                "start_time_unix_nano": str(1000 + i),
                "end_time_unix_nano": str(2000 + i), "attributes": attrs(i)}
    return {"resource_spans": [
        {"resource": {"attributes": [
            {"key": "service.name",
             "value": {"Value": {"StringValue": f"App{r}"}}},
            {"key": "service.version",
             "value": {"Value": {"StringValue": "1.0"}}}]},
         "scope_spans": [{"scope": {"name": f"G{r}{s}"},
                          "spans": [span(r, s, p) for p in range(2)]}
                         for s in range(2)]} for r in range(2)]}


def sites(obj, path=()):
    if isinstance(obj, dict):
        for k, v in obj.items():
            yield path + (k,)
            yield from sites(v, path + (k,))
    elif isinstance(obj, list):
        for i, v in enumerate(obj):
            yield path + (i,)
            yield from sites(v, path + (i,))


OPS = ('del', 'null', 'empty', 'num', 'dup', 'samekey', 'linesep')
# wave 13: unusual but legitimate values at a string site (not attribute
# keys, not the digit strings of the timestamps): text that is not in a
# Unicode normal form, the empty string, surrounding blanks, characters that
# need escaping, text that looks like a JSON literal, and the JSON values 0 /
# true where a string is usual (false is left out: the documentation speaks of
# absent values only and jq's alternative operator also skips false)
VOPS = {'v_nfd': lambda v: v + "e\u0301\u2126\u1112\u1161\u11ab",
        'v_empty': lambda v: "",
        'v_blank': lambda v: " " + v + " \t",
        'v_esc': lambda v: v + '"q\\b/\tz\'',
        'v_like': lambda v: "null",
        'v_zero': lambda v: 0,
        'v_true': lambda v: True}


def apply(doc, path, op):
    """returns a new document or None when the op does not apply"""
    d = copy.deepcopy(doc)
    o = d
    try:
        for k in path[:-1]:
            o = o[k]
        k = path[-1]
        if op == 'del':
            if isinstance(o, list):
                o.pop(k)
            else:
                del o[k]
        elif op == 'null':
            o[k] = None
        elif op == 'empty':
            if isinstance(o[k], list):
                o[k] = []
            else:
                return None
        elif op == 'num':
            if isinstance(o[k], str) and path[-1] != "key":
                o[k] = 7
            else:
                return None
        elif op == 'dup':
            if isinstance(o, list):
                o.insert(k, copy.deepcopy(o[k]))
            else:
                return None
        elif op == 'linesep':
            # characters that str.splitlines() treats as line boundaries but
            # that are legal inside a JSON string (written unescaped)
            if isinstance(o[k], str) and path[-1] != "key" \
                    and not o[k].isdigit():
                o[k] = o[k] + "\u2028x\x0by\x85z"
            else:
                return None
        elif op in VOPS:
            if isinstance(o[k], str) and path[-1] != "key" \
                    and not o[k].isdigit():
                o[k] = VOPS[op](o[k])
            else:
                return None
        elif op == 'samekey':
            # give two attributes the same key: unspecified which wins ->
            # generated, compared only for "other records unaffected"
            return None
    except (KeyError, IndexError, TypeError):
        return None
    return d


def single_deviations(ops=OPS):
    base = default_doc()
    out = []
    for p in sites(base):
        for op in ops:
            if apply(base, p, op) is not None:
                out.append((p, op))
    return out


def deviate(tag, devs):
    """apply deviations right-to-left in document order so that earlier paths
    stay valid; returns None if some deviation no longer applies"""
    d = default_doc(tag)
    for p, op in sorted(devs, key=lambda x: [str(k).rjust(3, '0') if isinstance(k, int) else k for k in x[0]], reverse=True):
        d = apply(d, tuple(p), op)
        if d is None:
            return None
    return d


def run_batch(mapping, docs, workdir):
    """docs: list of (tag, doc).  returns problems"""
    from tel2puml.otel_to_pv.data_sources.json_data_source.json_datasource \
        import JSONDataSource
    from tel2puml.otel_to_pv.data_sources.json_data_source.json_config \
        import JSONDataSourceConfig, OTelFieldMapping
    problems = []
    exp = {}
    for tag, doc in docs:
        exp[tag] = jqref.to_events(jqref.records(doc, mapping))
    def fm():
        # pydantic turns Iterable[...] members into one-shot iterators: build
        # a fresh mapping object per data source, as a CLI run does
        return OTelFieldMapping(**copy.deepcopy(mapping))
    # mode 1: one JSON per line, many documents in one file
    f1 = os.path.join(workdir, "lines.json")
    with open(f1, "w", encoding="utf-8") as f:
        for tag, doc in docs:
            f.write(json.dumps(doc, ensure_ascii=False) + "\n")
    src = JSONDataSource(JSONDataSourceConfig(
        filepath=f1, json_per_line=True, field_mapping=fm()))
    got1 = [e.model_dump() for e in src]
    want1 = [e for tag, _ in docs for e in exp[tag]]
    if got1 != want1:
        problems.append(first_diff("per_line", docs, exp, got1))
    os.remove(f1)
    # mode 2: whole files in a directory
    d2 = os.path.join(workdir, "whole")
    shutil.rmtree(d2, ignore_errors=True)
    os.makedirs(d2)
    os.makedirs(os.path.join(d2, "sub", "deeper"))
    for k, (tag, doc) in enumerate(docs):
        # files spread over nested directories (the source walks the tree)
        sub = ("", "sub", os.path.join("sub", "deeper"))[k % 3]
        with open(os.path.join(d2, sub, f"f{k:05d}.json"), "w",
                  encoding="utf-8") as f:
            json.dump(doc, f, indent=1, ensure_ascii=False)
    src = JSONDataSource(JSONDataSourceConfig(
        dirpath=d2, json_per_line=False, field_mapping=fm()))
    got2 = [e.model_dump() for e in src]
    shutil.rmtree(d2)
    # file order in a directory is os.walk order: compare as a multiset
    # (record order inside a document is checked in per-line mode)
    def ms(evs):
        return sorted(json.dumps(e, sort_keys=True) for e in evs)
    if ms(got2) != ms(want1):
        g, w = ms(got2), ms(want1)
        problems.append(["whole_file",
                         [x for x in g if x not in w][:2],
                         [x for x in w if x not in g][:2],
                         len(g), len(w)])
    return [p for p in problems if p], sum(len(v) for v in exp.values())


def tag_of(ev):
    return ev["event_id"].split(":")[0] + ":"


def first_diff(mode, docs, exp, got):
    pos = 0
    for tag, doc in docs:
        n = len(exp[tag])
        if got[pos:pos + n] != exp[tag]:
            return [mode, tag, got[pos:pos + n][:2], exp[tag][:2]]
        pos += n
    return [mode, "tail", got[pos:][:2], []]


def handle(task):
    workdir = impl_otel.scratch_dir()
    mapping = task["mapping"]
    docs = []
    for k, devs in enumerate(task["devs"]):
        tag = f"d{k}:"
        d = deviate(tag, devs)
        if d is not None:
            docs.append((tag, d, devs))
    bad = []
    nrec = 0
    try:
        probs, nrec = run_batch(mapping, [(t, d) for t, d, _ in docs], workdir)
    except Exception as e:
        probs = [["exception", type(e).__name__, str(e)[:200]]]
    if probs:
        # localise: re-run document by document
        for tag, d, devs in docs:
            try:
                p1, _ = run_batch(mapping, [(tag, d)], workdir)
            except Exception as e:
                p1 = [["exception", type(e).__name__, str(e)[:200]]]
            for p in p1:
                bad.append({"devs": devs, "mapping_name": task["mname"],
                            "mapping": mapping, "problem": p})
        if not bad:
            bad.append({"devs": task["devs"], "mapping_name": task["mname"],
                        "mapping": mapping, "problem": probs[0],
                        "batch_only": True})
    shutil.rmtree(workdir, ignore_errors=True)
    return {"n": 2 * len(docs), "bad": bad, "records": nrec}


def build(tier, ctx):
    singles = single_deviations()
    tasks = []

    def add(mname, mapping, devsets, chunk=150):
        for i in range(0, len(devsets), chunk):
            tasks.append({"mname": mname, "mapping": mapping,
                          "devs": devsets[i:i + chunk]})
    one = [[list(map(_l, [s]))[0]] for s in singles]
    one = [[[list(p), op]] for p, op in singles]
    base = [[]]
    vone = [[[list(p), op]] for p, op in single_deviations(tuple(VOPS))]
    for mname, m in mappings(1 if tier == "quick" else 2):
        add(mname + "/values", m, vone)
    if tier == "quick":
        for mname, m in mappings(2):
            add(mname, m, base + one)
        # double deviations inside the first resource group x default mapping
        first = [s for s in singles if len(s[0]) > 1 and s[0][1] == 0]
        pairs = [[[list(a[0]), a[1]], [list(b[0]), b[1]]]
                 for a, b in itertools.combinations(first, 2)]
        add("ex4", MAP_EX4, pairs, 400)
    else:
        for mname, m in mappings(2):
            add(mname, m, base + one)
        pairs = [[[list(a[0]), a[1]], [list(b[0]), b[1]]]
                 for a, b in itertools.combinations(singles, 2)]
        add("ex4", MAP_EX4, pairs, 600)
        first = [s for s in singles if len(s[0]) > 1 and s[0][1] == 0]
        pairs1 = [[[list(a[0]), a[1]], [list(b[0]), b[1]]]
                  for a, b in itertools.combinations(first, 2)]
        for mname, m in mappings(1):
            if mname != "ex4":
                add(mname, m, pairs1, 600)
    return tasks


def _l(x):
    return x


def collect(tier, tasks, results, ctx):
    viol = []
    n = nrec = 0
    maps = set()
    for t, r in zip(tasks, results):
        n += r["n"]
        nrec += r["records"]
        maps.add(t["mname"].split("/")[0])
        for b in r["bad"]:
            viol.append({
                "key": input_key(["C13", b["mapping_name"], b["devs"],
                                  b["problem"][0]]),
                "what": f"mapping={b['mapping_name']} deviations={b['devs']}: "
                        f"{str(b['problem'])[:300]}",
                "input": {"mapping": b["mapping"], "devs": b["devs"],
                          "mapping_name": b["mapping_name"]},
                "observed": b["problem"]})
    he = None
    if nrec == 0:
        he = "vacuous: reference produced no valid record"
    cov = {
        "evaluations": n, "distinct_nontrivial": max(0, n // 2 - len(maps)),
        "rule": "default OTel document with every combination of <= d "
                "deviations (delete key, null, empty array, drop/duplicate "
                "array element, numeric value) x mappings deviating from "
                "Example 4 in <= 2 fields (plain path, key/value lookup, "
                "header value, 2/3-way concatenation, priority fall-back) x "
                "2 file modes; distinct_nontrivial = distinct (document, "
                "mapping) pairs with at least one deviation",
        "samples": [{"mapping": "ex4", "deviations":
                     [[["resource_spans", 0, "scope_spans", 1, "spans"],
                       "empty"]]}],
        "exhaustive": True,
        "bounds": {"tier": tier, "document_deviations":
                   "1 (all mappings), 2 within the first resource group "
                   "(default mapping)" if tier == "quick" else
                   "1 (all mappings), 2 anywhere (default mapping), 2 within "
                   "the first resource group (single-field mappings)",
                   "mappings": len(maps)},
        "valid_records_expected": nrec,
    }
    return {"violations": viol, "coverage": cov, "harness_error": he,
            "assumptions": [
                "reference interpreter mc/jqref.py of the documented path "
                "semantics; compared at the OTelEvent level (a missing array "
                "yields one all-null record which is then skipped)",
                "only documented mapping forms are generated"]}


def replay(rec, ctx):
    i = rec["input"]
    r = handle({"mname": i["mapping_name"], "mapping": i["mapping"],
                "devs": [i["devs"]] if i["devs"] and
                isinstance(i["devs"][0][0], list) and
                (not i["devs"][0][0] or not isinstance(i["devs"][0][0][0], list))
                else i["devs"]})
    return bool(r["bad"]), repr([b["problem"] for b in r["bad"]])[:300]
