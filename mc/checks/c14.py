"""C14 - otel2puml equals otel2pv followed by pv2puml through saved files.

Model checking of a commuting diagram: every trace set of the scope x mapping
{default, custom with all seven keys renamed} x {sync, async}; three real CLI
invocations through tel2puml.__main__.main_handler (in process, SystemExit
trapped): route 1 `otel2puml`; route 2 `otel2pv -se [-mc]` then
`pv2puml -fp <dir> -jn <workflow> [-mc]` per workflow."""
import itertools
import json
import os
import shutil

from .. import impl_otel, sched
from ..findings import input_key
from . import pvcommon

ID = "C14"
LEVEL = "model_checking"
HANDLER = "mc.checks.c14:handle"
TIMEOUT = 900.0
SEC = 10 ** 9
T0 = 1_700_000_000

# trees: list of (type, parent index, start, end) on a small grid
TREES = {
    "r": [("r", None, 0, 9)],
    "r[a]": [("r", None, 0, 9), ("a", 0, 1, 2)],
    "r[a;b]": [("r", None, 0, 9), ("a", 0, 1, 2), ("b", 0, 3, 4)],
    "r[b;a]": [("r", None, 0, 9), ("b", 0, 1, 2), ("a", 0, 3, 4)],
    "r[a|b]": [("r", None, 0, 9), ("a", 0, 1, 3), ("b", 0, 2, 4)],
    "r[a[b]]": [("r", None, 0, 9), ("a", 0, 1, 4), ("b", 1, 2, 3)],
    "r[a;c]": [("r", None, 0, 9), ("a", 0, 1, 2), ("c", 0, 3, 4)],
}
TREES_X = {
    "r[a[b];c]": [("r", None, 0, 9), ("a", 0, 1, 4), ("b", 1, 2, 3),
                  ("c", 0, 5, 6)],
    "r[a|b;c]": [("r", None, 0, 9), ("a", 0, 1, 3), ("b", 0, 2, 4),
                 ("c", 0, 5, 6)],
    "r[a;b|c]": [("r", None, 0, 9), ("a", 0, 1, 2), ("b", 0, 3, 6),
                 ("c", 0, 4, 5)],
}
CUSTOM_MAP = dict(jobId="jid", eventId="eid", timestamp="ts",
                  previousEventIds="prev", applicationName="an",
                  jobName="jn", eventType="et")
# legal but awkward: targets that are the internal names of other fields
SWAP_MAP = dict(jobId="jobId", eventId="timestamp", timestamp="eventId",
                previousEventIds="previousEventIds",
                applicationName="jobName", jobName="workflow",
                eventType="applicationName")
WF = ("wf one", "wf2", "shop.checkout", "shop.refund v2",
      # wave 13: names holding characters that file-name patterns, shells or
      # URLs treat specially, next to a name such a pattern would match
      "job[12]", "job1", "what?*", "what12", "Auftr\u00e4ge #1 (50%)")


def all_trees():
    d = dict(TREES)
    d.update(TREES_X)
    return d


def trace_sets(tier):
    names = sorted(TREES)
    w1 = [(a,) for a in names] + list(
        itertools.combinations_with_replacement(names, 2))
    out = [{"wf one": list(s)} for s in w1]
    second = ["r[a]", "r[a;b]", "r[a|b]"]
    for s in w1:
        for t in second:
            out.append({"wf one": list(s), "wf2": [t]})
    # workflow names that share everything up to a dot (names become file
    # and directory names)
    out += [{"shop.checkout": [a], "shop.refund v2": [b]}
            for a in names[:3] for b in second]
    out += [{"wf one": ["r[a]"], "shop.checkout": ["r[a;b]"],
             "shop.refund v2": ["r[a|b]", "r"]}]
    out += [{"job[12]": [a], "job1": [b]}
            for a in names[:3] for b in second]
    out += [{"job[12]": ["r[a;b]"]}, {"what?*": ["r[a|b]"]},
            {"what?*": ["r[a]"], "what12": ["r[a;b]"]},
            {"Auftr\u00e4ge #1 (50%)": ["r[a]", "r[a|b]"], "job1": ["r"]}]
    # many traces per workflow (file numbering and paging beyond one digit)
    cyc = lambda n, o=0: [names[(i * 3 + o) % len(names)]  # noqa: E731
                          for i in range(n)]
    out += [{"wf one": cyc(12), "wf2": second},
            {"wf one": cyc(10, 1)},
            {"wf one": cyc(101, 2), "wf2": [second[i % 3] for i in range(11)]}]
    if tier == "thorough":
        out += [{"wf one": cyc(n, 1), "wf2": [second[i % 3]
                                              for i in range(m)]}
                for n, m in ((9, 10), (11, 1), (20, 21), (100, 9),
                             (1001, 2))]
    if tier == "thorough":
        big = sorted(all_trees())
        for s in itertools.combinations_with_replacement(big, 3):
            if any(x in TREES_X for x in s):
                out.append({"wf one": list(s)})
        for s in itertools.combinations_with_replacement(big, 2):
            if any(x in TREES_X for x in s):
                out.append({"wf one": list(s), "wf2": ["r[a;b]"]})
    return out


def spans_for(tset):
    spans = []
    k = 0
    trees = all_trees()
    for wf in WF:
        for tname in tset.get(wf, []):
            jid = f"t{k}"
            for i, (typ, par, s, e) in enumerate(trees[tname]):
                spans.append(dict(
                    job_name=wf, job_id=jid, event_type=typ,
                    event_id=f"{jid}_{i}",
                    parent_event_id=None if par is None else f"{jid}_{par}",
                    start=str((T0 + 100 * k + s) * SEC),
                    end=str((T0 + 100 * k + e) * SEC + 1000 * (i + 1)),
                    app=f"app{i}"))
            k += 1
    return spans


def write_case(root, tset, async_flag, seqopts=False):
    import yaml
    os.makedirs(os.path.join(root, "in"))
    with open(os.path.join(root, "in", "data.json"), "w") as f:
        json.dump({"spans": spans_for(tset)}, f)
    fm = {k: {"key_paths": ["spans.[]." + v], "value_type": "string"}
          for k, v in dict(job_name="job_name", job_id="job_id",
                           event_type="event_type", event_id="event_id",
                           start_timestamp="start", end_timestamp="end",
                           application_name="app",
                           parent_event_id="parent_event_id").items()}
    cfg = dict(ingest_data=dict(data_source="json", data_holder="sql"),
               data_holders=dict(sql=dict(db_uri="sqlite:///:memory:",
                                          batch_size=3, time_buffer=0)),
               data_sources=dict(json=dict(dirpath=os.path.join(root, "in"),
                                           filepath=None, json_per_line=False,
                                           field_mapping=fm)),
               sequencer=dict(async_flag=async_flag))
    if seqopts:
        # per-workflow sequencer options for the first workflow only
        cfg["sequencer"]["async_event_groups"] = {
            WF[0]: {"r": {"a": "g1", "b": "g1"}}}
        cfg["sequencer"]["event_name_map_information"] = {
            WF[0]: {"r": {"mapped_event_type": "R",
                          "child_event_types": ["a"]}}}
    with open(os.path.join(root, "cfg.yaml"), "w") as f:
        yaml.safe_dump(cfg, f)
    with open(os.path.join(root, "map.yaml"), "w") as f:
        yaml.safe_dump(CUSTOM_MAP, f)
    with open(os.path.join(root, "swap.yaml"), "w") as f:
        yaml.safe_dump(SWAP_MAP, f)
    return cfg


def call(args):
    from tel2puml.__main__ import main_handler, ERROR_MESSAGES
    impl_otel.reset_metadata()
    sched.install(None)
    try:
        main_handler(dict(args), ERROR_MESSAGES)
        return 0
    except SystemExit as e:
        return e.code if e.code is not None else 0


def canon_event(e):
    prev = e.get("previousEventIds", [])
    if isinstance(prev, str):
        prev = [prev]
    return (e["eventId"], e["eventType"], e["jobId"], e["jobName"],
            e["timestamp"], e["applicationName"], tuple(sorted(prev)))


def run_case(tset, custom, async_flag, ug=False, seqopts=False):
    from tel2puml.otel_to_pv.otel_to_pv import otel_to_pv
    from tel2puml.otel_to_pv.config import IngestDataConfig
    import tel2puml.events  # noqa: F401
    root = impl_otel.scratch_dir()
    problems = []
    info = {"identical_text": 0, "workflows": 0}
    try:
        cfg = write_case(root, tset, async_flag, seqopts)
        o1, o2, o3 = (os.path.join(root, d) for d in ("o1", "o2", "o3"))
        cfgp = os.path.join(root, "cfg.yaml")
        mapp = None
        if custom:
            mapp = os.path.join(root, "swap.yaml" if custom == "swap"
                                else "map.yaml")
        rc1 = call(dict(command="otel2puml", output_file_directory=o1,
                        config_file=cfgp, ingest_data=True,
                        find_unique_graphs=ug, debug=False,
                        input_puml_models=[], output_puml_models=False))
        a2 = dict(command="otel2pv", output_file_directory=o2,
                  config_file=cfgp, ingest_data=True,
                  find_unique_graphs=ug, save_events=True, debug=False)
        if mapp:
            a2["mapping_config_file"] = mapp
        rc2 = call(a2)
        rc3 = 0
        wfs = sorted(os.listdir(o2)) if os.path.isdir(o2) else []
        for wf in wfs:
            a3 = dict(command="pv2puml", output_file_directory=o3,
                      folder_path=os.path.join(o2, wf), file_paths=[],
                      job_name=wf, group_by_job=False, debug=False,
                      input_puml_models=[], output_puml_models=False)
            if mapp:
                a3["mapping_config_file"] = mapp
            rc3 = rc3 or call(a3)
        route2 = rc2 or rc3
        if bool(rc1) != bool(route2):
            problems.append(["one_route_fails", rc1, rc2, rc3])
        # (a) saved files == in-memory stream
        impl_otel.reset_metadata()
        stream = {}
        for name, jobs in otel_to_pv(IngestDataConfig(**cfg),
                                     ingest_data=True,
                                     find_unique_graphs=ug):
            stream[name] = sorted(sorted(canon_event(e) for e in job)
                                  for job in jobs)
        # (d) the streamed links are those of the documented sequencing
        # rules under the options configured for *that* workflow
        if not ug:
            prob = check_links_against_rules(tset, async_flag, seqopts,
                                             stream)
            if prob:
                problems.append(prob)
        saved = {}
        inv = {v: k for k, v in (SWAP_MAP if custom == "swap"
                                 else CUSTOM_MAP).items()}
        for wf in wfs:
            jobs = []
            for fn in sorted(os.listdir(os.path.join(o2, wf))):
                with open(os.path.join(o2, wf, fn)) as f:
                    evs = json.load(f)
                if custom:
                    if any(set(e) - set(inv) for e in evs):
                        problems.append(["saved_keys_not_mapped", wf, fn,
                                         sorted(evs[0])])
                        evs = []
                    evs = [{inv[k]: v for k, v in e.items()} for e in evs]
                jobs.append(sorted(canon_event(e) for e in evs))
            saved[wf] = sorted(jobs)
        if saved != stream and rc2 == 0:
            problems.append(["saved_files_differ_from_stream",
                             {k: len(v) for k, v in saved.items()},
                             {k: len(v) for k, v in stream.items()}])
        if set(stream) != set(tset):
            problems.append(["workflows", sorted(stream), sorted(tset)])
        # (b) diagrams
        if rc1 == 0 and not route2:
            f1 = sorted(os.listdir(o1))
            f3 = sorted(os.listdir(o3)) if os.path.isdir(o3) else []
            if f1 != f3:
                problems.append(["diagram_files", f1, f3])
            else:
                for fn in f1:
                    with open(os.path.join(o1, fn)) as f:
                        t1 = f.read()
                    with open(os.path.join(o3, fn)) as f:
                        t3 = f.read()
                    info["workflows"] += 1
                    if t1 == t3:
                        info["identical_text"] += 1
                    elif pvcommon.fingerprint(t1) != pvcommon.fingerprint(t3):
                        problems.append(["diagrams_differ", fn, t1, t3])
                    if pvcommon.fingerprint(t1) == "unparseable":
                        info["unparseable"] = info.get("unparseable", 0) + 1
            want = sorted(wf.replace(" ", "_") + ".puml" for wf in tset)
            if f1 != want:
                problems.append(["diagram_file_names", f1, want])
    except Exception as e:
        import traceback
        problems.append(["exception", type(e).__name__, str(e)[:200],
                         traceback.format_exc()[-600:]])
    finally:
        shutil.rmtree(root, ignore_errors=True)
    return problems, info


def check_links_against_rules(tset, async_flag, seqopts, stream):
    from . import c08
    trees = all_trees()
    k = 0
    for wf in WF:
        amap, rmap = {}, {}
        if seqopts and wf == WF[0]:
            amap = {"r": {"a": "g1", "b": "g1"}}
            rmap = {"r": ("R", ["a"])}
        got = {}
        for job in stream.get(wf, []):
            for ev in job:
                got[ev[0]] = (ev[1], frozenset(ev[6]))
        for tname in tset.get(wf, []):
            jid = f"t{k}"
            nodes = trees[tname]
            spans = {}
            for i, (typ, par, s_, e_) in enumerate(nodes):
                spans[i] = dict(type=typ, s=s_, e=e_, parent=par,
                                children=[j for j, n in enumerate(nodes)
                                          if n[1] == i])
            exp = c08.ref_sequence(spans, async_flag, amap, rmap)
            for i, (typ, prev) in exp.items():
                want = (typ, frozenset(f"{jid}_{p}" for p in prev))
                if got.get(f"{jid}_{i}") != want:
                    return ["links_not_per_rules", wf, tname, f"{jid}_{i}",
                            [got.get(f"{jid}_{i}", (None, []))[0],
                             sorted(got.get(f"{jid}_{i}", (None, []))[1])],
                            [want[0], sorted(want[1])]]
            k += 1
    return None


def handle(task):
    out = []
    n = 0
    agg = {"identical_text": 0, "workflows": 0, "fail_both": 0}
    for tset in task["tsets"]:
        for custom in (False, True):
            for af in (False, True):
                n += 1
                problems, info = run_case(tset, custom, af)
                for k in ("identical_text", "workflows"):
                    agg[k] += info[k]
                for p in problems:
                    out.append({"tset": tset, "custom": custom, "async": af,
                                "problem": p})
        # a mapping whose target names overlap internal field names
        n += 1
        problems, info = run_case(tset, "swap", False)
        for k in ("identical_text", "workflows"):
            agg[k] += info[k]
        for p in problems:
            out.append({"tset": tset, "custom": "swap", "async": False,
                        "problem": p})
        if len(tset) >= 2:
            # sequencer options configured for the first workflow only
            for af in (False, True):
                n += 1
                problems, info = run_case(tset, False, af, seqopts=True)
                for k in ("identical_text", "workflows"):
                    agg[k] += info[k]
                for p in problems:
                    out.append({"tset": tset, "custom": False, "async": af,
                                "seqopts": True, "problem": p})
        if sum(len(v) for v in tset.values()) >= 2:
            # both routes with --unique-graphs
            n += 1
            problems, info = run_case(tset, False, False, ug=True)
            for k in ("identical_text", "workflows"):
                agg[k] += info[k]
            for p in problems:
                out.append({"tset": tset, "custom": False, "async": False,
                            "ug": True, "problem": p})
    return {"n": n, "bad": out, "agg": agg}


def build(tier, ctx):
    ts = trace_sets(tier)
    chunk = 2 if tier == "quick" else 4
    return [{"tsets": ts[i:i + chunk]} for i in range(0, len(ts), chunk)]


def collect(tier, tasks, results, ctx):
    viol = []
    n = 0
    agg = {}
    nsets = 0
    multi = 0
    for t, r in zip(tasks, results):
        n += r["n"]
        for ts in t["tsets"]:
            nsets += 1
            if len(ts) > 1 or any(len(v) > 1 for v in ts.values()):
                multi += 1
        for k, v in r["agg"].items():
            agg[k] = agg.get(k, 0) + v
        for b in r["bad"]:
            viol.append({
                "key": input_key(["C14", b["tset"], b["custom"], b["async"],
                                  b["problem"][0], bool(b.get("ug")),
                                  bool(b.get("seqopts"))]),
                "what": f"traces={b['tset']} custom_mapping={b['custom']} "
                        f"async={b['async']}: {str(b['problem'])[:300]}",
                "input": {"tset": b["tset"], "custom": b["custom"],
                          "async": b["async"], "ug": bool(b.get("ug")),
                          "seqopts": bool(b.get("seqopts"))},
                "observed": b["problem"]})
    he = None
    if not agg.get("workflows"):
        he = "vacuous: no diagram pair compared"
    cov = {
        "states": nsets, "transitions": 3 * n,
        "traces_validated_against_impl": n,
        "evaluations": n, "distinct_nontrivial": multi,
        "rule": "every multiset of <= 2 traces of the first workflow (7 "
                "call-tree shapes incl. overlapping siblings and a nested "
                "child), optionally with one trace of a second workflow, x "
                "{default, custom} PV mapping x {sync, async}; non-trivial = "
                "trace sets with several traces or workflows",
        "samples": [{"traces": tasks[len(tasks) // 2]["tsets"][0],
                     "routes": ["otel2puml", "otel2pv -se [-mc] ; pv2puml "
                                "-fp <dir> -jn <workflow> [-mc]"]}],
        "exhaustive": True,
        "bounds": {"tier": tier, "trace_sets": nsets},
        "diagram_pairs_compared": agg.get("workflows", 0),
        "diagram_pairs_byte_identical": agg.get("identical_text", 0),
        "states_meaning": "trace sets; transitions = CLI invocations",
    }
    return {"violations": viol, "coverage": cov, "harness_error": he,
            "assumptions": pvcommon.ASSUMPTIONS + [
                "CLI entered through tel2puml.__main__.main_handler in "
                "process (argument dict as argparse would build it)",
                "diagrams compared by accepted language (loops <= 2)"]}


def replay(rec, ctx):
    i = rec["input"]
    problems, _ = run_case(i["tset"], i["custom"], i["async"],
                           ug=i.get("ug", False),
                           seqopts=i.get("seqopts", False))
    return bool(problems), repr([p[:2] for p in problems])[:300]
