"""C12 - every stored trace is streamed once, whole, under one workflow name.

Model checking over stores x batch sizes x filters x consumers."""
import itertools

from .. import impl_otel, otel_model as om
from ..findings import input_key

ID = "C12"
LEVEL = "model_checking"
HANDLER = "mc.checks.c12:handle"
TIMEOUT = 900.0
SH = [('a',), ('a', ('b',)), ('a', ('b',), ('a',)), ('a', ('b', ('a',)))]
BATCHES = (1, 2, 3, 4, 1000)
NAMES = ("n1", "n2", "n3")
# wave 13: workflow names that relate to each other in unusual ways: equal up
# to letter case, up to trailing blanks, one a prefix of the other, composed
# versus decomposed accents, digits whose text order is not their numeric
# order.  Stores over these names list the traces in every order (not only
# sorted by name), so that the trace ids of two such names interleave.
ALIAS_SETS = (("Order", "order", "ORDER"), ("a", "a ", "a_"),
              ("job", "jo", "job.1"), ("\u00e9", "e\u0301", "e"),
              ("10", "9", "09"))
ALIAS_BATCHES = (1, 2, 1000)


def build(tier, ctx):
    itm = [(nm, sh) for nm in NAMES for sh in SH]
    stores = []
    for r in (1, 2):
        stores += list(itertools.combinations_with_replacement(itm, r))
    one_shape = [(nm, SH[2]) for nm in NAMES]
    if tier == "quick":
        stores += list(itertools.combinations_with_replacement(one_shape, 3))
    else:
        stores += list(itertools.combinations_with_replacement(itm, 3))
        two = [(nm, sh) for nm in NAMES for sh in (SH[1], SH[2])]
        stores += list(itertools.combinations_with_replacement(two, 4))
    chunk = 2 if tier == "quick" else 8
    # scale: more traces / ids than the sizes at which SQL id lists are
    # usually chunked (500 / 900 / 999 / 1000)
    sizes = [(701, 1000), (1001, 1000), (1301, 1000)]
    if tier == "thorough":
        sizes += [(1000, 1000), (1130, 1000), (1251, 1000), (1801, 1000),
                  (1301, 5000), (1301, 400)]
    alias = []
    for k, names in enumerate(ALIAS_SETS):
        if k < (2 if tier == "quick" else len(ALIAS_SETS)):
            alias += [tuple((nm, SH[1]) for nm in c)
                      for c in itertools.product(names, repeat=3)
                      if len(set(c)) > 1]
        alias += [tuple((nm, SH[2]) for nm in c)
                  for c in itertools.permutations(names, 2)]
    return [{"scale": [sz], "stores": []} for sz in sizes] + \
        [{"stores": stores[i:i + chunk]}
         for i in range(0, len(stores), chunk)] + \
        [{"stores": alias[i:i + 4], "batches": list(ALIAS_BATCHES)}
         for i in range(0, len(alias), 4)]


def filters_for(byname):
    names = sorted(byname)
    f = {"none": None,
         "allofone": {names[0]: set(byname[names[0]])},
         "oneper": {nm: {ids[0]} for nm, ids in byname.items()},
         "norows": {"ghost": {"jx"}, names[0]: set(byname[names[0]])}}
    if len(names) > 1:
        f["wrongname"] = {names[0]: {byname[names[-1]][0]}}
    else:
        f["wrongname"] = {names[0]: {"nosuch"}}
    # every trace listed, keys in ascending / descending name order (more
    # ids than a small batch size; the order of the filter must not matter)
    f["all_asc"] = {nm: set(byname[nm]) for nm in names}
    f["all_desc"] = {nm: set(byname[nm]) for nm in reversed(names)}
    return f


def run_store(store, batches=BATCHES):
    bad = []
    n = hits = 0
    names = {nm for nm, _ in store}
    for shared in ((False, True) if len(names) > 1 else (False,)):
        k, b, h = run_store_mode(store, shared, batches=batches)
        n += k
        hits += h
        bad += b
    if len(store) <= 2:
        # wave 15: histories on one holder - stream, save more spans (late
        # children of spans already streamed), stream again, stream a third
        # time: every later stream must be complete and correctly linked
        k, b = run_restream(store, batches)
        n += k
        bad += b
    if len(store) <= 2:
        # root spans whose "no parent" is written as the empty string
        k, b, h = run_store_mode(store, False, empty_root=True,
                                 batches=batches)
        n += k
        bad += b
    return n, bad, hits


def run_restream(store, batches):
    bad = []
    n = 0
    traces = [om.spans_of(sh, f"j{k}", nm) for k, (nm, sh) in enumerate(store)]
    allspans = {s['event_id']: s for t in traces for s in t}
    kids = {}
    for s in allspans.values():
        if s['parent_event_id']:
            kids.setdefault(s['parent_event_id'], set()).add(s['event_id'])
    names = sorted({nm for nm, _ in store})
    byname = {nm: [f"j{k}" for k, (n2, _) in enumerate(store) if n2 == nm]
              for nm in names}

    def snapshot(h, flt=None):
        got = []
        for nm, gen in h.stream_data(flt):
            jobs = [[e for e in g] for g in gen]
            got.append((nm, [[(e.job_id, e.event_id, e.parent_event_id,
                               frozenset(e.child_event_ids), e.job_name,
                               e.event_type, e.start_timestamp,
                               e.end_timestamp, e.application_name)
                              for e in j] for j in jobs]))
        return got
    orders = om.ingestion_orders(traces)
    for bs in (batches[0], batches[-1]):
        for on in ("seq", "rr"):
            order = orders[on]
            for p in range(1, len(order)):
                n += 1
                h = impl_otel.new_holder(batch_size=bs)
                try:
                    impl_otel.ingest(h, order[:p])
                    snapshot(h)
                    impl_otel.ingest(h, order[p:])
                    for rnd, flt in ((2, None), (3, None),
                                     (4, {names[0]: set(byname[names[0]])})):
                        prob = compare(snapshot(h, flt), flt, byname,
                                       allspans, kids)
                        if prob:
                            bad.append({"bs": bs, "order": on,
                                        "filter": "none" if flt is None
                                        else "allofone",
                                        "consumer": f"restream{p}.{rnd}",
                                        "shared": False, "problem": prob})
                            break
                except Exception as e:
                    bad.append({"bs": bs, "order": on, "filter": "none",
                                "consumer": f"restream{p}", "shared": False,
                                "problem": ["exception", type(e).__name__,
                                            str(e)[:160]]})
                finally:
                    h.engine.dispose()
    return n, bad


def scale_store(n):
    # four traces in five belong to the first workflow, so that one name
    # alone holds more ids than a chunked statement would take
    return [(NAMES[1] if k % 10 == 0 else NAMES[2] if k % 10 == 5
             else NAMES[0], SH[(k * 3) % len(SH)]) for k in range(n)]


SCALE_FILTERS = ("none", "all_asc", "allofone")


def run_store_mode(store, shared, empty_root=False, batches=BATCHES,
                   scale=False):
    """shared: trace ids are only unique per workflow name (two workflows
    reuse the same ids); span ids stay globally unique"""
    from tel2puml.otel_to_pv.sequence_otel import \
        job_ids_to_eventid_to_otelevent_map
    bad = []
    n = 0
    boundary_hits = 0
    traces = [om.spans_of(sh, f"j{k}", nm) for k, (nm, sh) in enumerate(store)]
    names = sorted({nm for nm, _ in store})
    rank = {}
    jid_of = {}
    for k, (nm, _) in enumerate(store):
        r = rank.get(nm, 0)
        rank[nm] = r + 1
        jid_of[k] = f"t{r}" if shared else f"j{k}"
    for k, t in enumerate(traces):
        for sp in t:
            sp['job_id'] = jid_of[k]
    allspans = {s['event_id']: s for t in traces for s in t}
    kids = {}
    for s in allspans.values():
        if s['parent_event_id']:
            kids.setdefault(s['parent_event_id'], set()).add(s['event_id'])
    orders = om.ingestion_orders(traces)
    if empty_root:
        # ingested with parent "" for roots; the store / stream must still
        # treat them as having no parent
        orders = {on: [dict(sp, parent_event_id="")
                       if sp['parent_event_id'] is None else sp
                       for sp in order] for on, order in orders.items()
                  if on in ("seq", "rr")}
    byname = {nm: [jid_of[k] for k, (n2, _) in enumerate(store) if n2 == nm]
              for nm in names}
    # positions (in the ordered row stream) at which a trace/name group ends
    ordered = sorted(allspans.values(),
                     key=lambda s: (s['job_name'], s['job_id']))
    ends = {i + 1 for i in range(len(ordered) - 1)
            if (ordered[i]['job_name'], ordered[i]['job_id']) !=
            (ordered[i + 1]['job_name'], ordered[i + 1]['job_id'])}
    filters = filters_for(byname)
    if shared:
        # select different ids under two names that both hold both ids
        filters["cross"] = {names[0]: {byname[names[0]][0]},
                            names[1]: {byname[names[1]][-1]}}
    for bs in batches:
        if any(e % bs == 0 for e in ends):
            boundary_hits += 1
        for on, order in orders.items():
            if on == "childfirst" or (scale and on != "seq"):
                continue
            for fn, flt in filters.items():
                if scale and fn not in SCALE_FILTERS:
                    continue
                for consumer in ("pipeline", "nested"):
                    if scale and consumer == "nested":
                        continue
                    n += 1
                    h = impl_otel.new_holder(batch_size=bs)
                    got = []
                    try:
                        impl_otel.ingest(h, order)
                        for nm, gen in h.stream_data(flt):
                            if consumer == "pipeline":
                                jobs = [list(m.values()) for m in
                                        job_ids_to_eventid_to_otelevent_map(gen)]
                            else:
                                jobs = [[e for e in g] for g in gen]
                            got.append((nm, [[(e.job_id, e.event_id,
                                               e.parent_event_id,
                                               frozenset(e.child_event_ids),
                                               e.job_name, e.event_type,
                                               e.start_timestamp,
                                               e.end_timestamp,
                                               e.application_name)
                                              for e in j] for j in jobs]))
                    except Exception as e:
                        bad.append({"bs": bs, "order": on, "filter": fn,
                                    "consumer": consumer, "shared": shared,
                                    "problem": ["exception", type(e).__name__,
                                                str(e)[:160]]})
                        continue
                    finally:
                        h.engine.dispose()
                    prob = compare(got, flt, byname, allspans, kids)
                    if prob:
                        bad.append({"bs": bs, "order": on, "filter": fn,
                                    "consumer": consumer, "shared": shared,
                                    "empty_root": empty_root,
                                    "problem": prob})
    return n, bad, boundary_hits


def compare(got, flt, byname, allspans, kids):
    if flt is None:
        want = {nm: set(ids) for nm, ids in byname.items()}
    else:
        want = {nm: {j for j in ids if j in byname.get(nm, [])}
                for nm, ids in flt.items()}
        want = {k: v for k, v in want.items() if v}
    gotnames = [g[0] for g in got]
    if sorted(gotnames) != sorted(want):
        return ["names", gotnames, sorted(want)]
    for nm, jobs in got:
        if any(not j for j in jobs):
            return ["empty_trace", nm]
        jids = [j[0][0] for j in jobs]
        if sorted(jids) != sorted(want[nm]):
            return ["traces", nm, jids, sorted(want[nm])]
        for j in jobs:
            jid = j[0][0]
            exp = {s['event_id'] for s in allspans.values()
                   if s['job_id'] == jid and s['job_name'] == nm}
            if sorted(e[1] for e in j) != sorted(exp):
                return ["spans", jid, sorted(e[1] for e in j), sorted(exp)]
            for e in j:
                s = allspans[e[1]]
                if (e[0] != jid or e[4] != nm
                        or e[2] != s['parent_event_id']
                        or e[3] != frozenset(kids.get(e[1], set()))
                        or e[5] != s['event_type']
                        or e[6] != s['start_timestamp']
                        or e[7] != s['end_timestamp']
                        or e[8] != s['application_name']):
                    return ["span_fields", e[1]]
    return None


def _tt(x):
    return tuple(_tt(y) if isinstance(y, (list, tuple)) else y for y in x)


def handle(task):
    out = []
    n = hits = 0
    if task.get("scale"):
        for nt, bs in task["scale"]:
            k, bad, bh = run_store_mode(scale_store(nt), False,
                                        batches=(bs,), scale=True)
            n += k
            for b in bad:
                b["scale"] = [nt, bs]
                out.append(b)
        return {"n": n, "bad": out, "boundary_hits": 0, "scale_runs": n}
    for store in task["stores"]:
        store = [(nm, _tt(sh)) for nm, sh in store]
        k, bad, bh = run_store(store, tuple(task.get("batches") or BATCHES))
        n += k
        hits += bh
        for b in bad:
            b["store"] = store
            out.append(b)
    return {"n": n, "bad": out, "boundary_hits": hits}


def collect(tier, tasks, results, ctx):
    viol = []
    n = hits = nstores = nontrivial = sruns = 0
    for t, r in zip(tasks, results):
        n += r["n"]
        hits += r["boundary_hits"]
        for st in t["stores"]:
            nstores += 1
            if len(st) >= 2:
                nontrivial += 1
        sruns += r.get("scale_runs", 0)
        for b in r["bad"]:
            if b.get("scale"):
                viol.append({
                    "key": input_key(["C12", "scale", b["scale"],
                                      b["filter"]]),
                    "what": f"{b['scale'][0]} traces cycling through all "
                            f"shapes and names, batch={b['bs']} "
                            f"filter={b['filter']}: {b['problem']}",
                    "input": {"scale": b["scale"], "filter": b["filter"]},
                    "observed": b["problem"]})
                continue
            viol.append({
                "key": input_key(["C12", b["store"], b["bs"], b["order"],
                                  b["filter"], b["consumer"],
                                  bool(b.get("shared")),
                                  bool(b.get("empty_root"))]),
                "what": f"store={b['store']} batch={b['bs']} order={b['order']}"
                        f" filter={b['filter']} consumer={b['consumer']}: "
                        f"{b['problem']}",
                "input": {k: b.get(k) for k in ("store", "bs", "order",
                                                "filter", "consumer",
                                                "shared", "empty_root")},
                "observed": b["problem"]})
    he = None
    if hits == 0:
        he = "vacuous: no trace boundary coincided with a yield_per boundary"
    cov = {
        "states": nstores, "transitions": n,
        "traces_validated_against_impl": n,
        "evaluations": n, "distinct_nontrivial": nontrivial,
        "rule": "every multiset of traces (4 shapes x 3 workflow names) up "
                "to the bound x 5 batch sizes x 3 ingestion orders x 7 "
                "filters x 2 consumers; non-trivial = stores with at least "
                "two traces",
        "samples": [{"store": [t for t in tasks
                               if t["stores"]][0]["stores"][0],
                     "batch_sizes": list(BATCHES),
                     "filters": ["none", "allofone", "oneper", "wrongname",
                                 "norows", "all_asc", "all_desc"],
                     "consumers": ["pipeline", "nested"]}],
        "exhaustive": True,
        "bounds": {"tier": tier, "stores": "<= 2 traces, plus 3 traces over "
                   "one shape" if tier == "quick" else
                   "<= 3 traces; 4 traces over two shapes"},
        "stores": nstores,
        "scale_runs_700_to_1800_traces": sruns,
        "store_x_batch_with_group_end_on_batch_boundary": hits,
        "states_meaning": "stores explored; transitions = streaming "
                          "configurations executed on the real code",
    }
    return {"violations": viol, "coverage": cov, "harness_error": he,
            "assumptions": ["in-memory SQLite"]}


def replay(rec, ctx):
    i = rec["input"]
    if i.get("scale"):
        n, bad, _ = run_store_mode(scale_store(i["scale"][0]), False,
                                   batches=(i["scale"][1],), scale=True)
        bad = [b for b in bad if b["filter"] == i["filter"]]
        return bool(bad), repr([b["problem"] for b in bad])[:300]
    store = [(nm, _tt(sh)) for nm, sh in i["store"]]
    n, bad, _ = run_store(store)
    bad = [b for b in bad if all(b[k] == i[k] for k in
                                 ("bs", "order", "filter", "consumer"))
           and bool(b.get("shared")) == bool(i.get("shared"))
           and bool(b.get("empty_root")) == bool(i.get("empty_root"))]
    return bool(bad), repr([b["problem"] for b in bad])[:300]
