"""C04 - updating a saved model equals learning from all data at once.

Model checking over save/load histories.  State = the model file; transition =
one run "load model (if any) -> learn chunk -> emit diagram -> save model"
through the real otel_to_puml(components="pv2puml", -im/-om).  Enumerated:
every ordered 2-split (and 3-split) of the job set for small job sets,
contiguous splits otherwise, each also with the last chunk repeated.
Stage R: exhaustive small-scope round trip of abstract models with counts."""
import itertools
import json
import os
import shutil

from .. import dsl, semantics, present, impl_otel, impl_pv, sched, fragment
from ..findings import input_key
from . import pvcommon

ID = "C04"
LEVEL = "model_checking"
HANDLER = "mc.checks.c04:handle"
TIMEOUT = 900.0


def splits2(m, full):
    """ordered 2-splits as (chunk1, chunk2) index tuples"""
    idx = list(range(m))
    if full:
        for r in range(1, m):
            for a in itertools.combinations(idx, r):
                b = tuple(i for i in idx if i not in a)
                yield (a, b)
    else:
        cuts = list(range(1, m))
        if m > 12:
            cuts = sorted({max(1, min(m - 1, round(m * q / 10)))
                           for q in range(1, 10)} | {1, m - 1})
        for c in cuts:
            yield (tuple(idx[:c]), tuple(idx[c:]))
            yield (tuple(idx[c:]), tuple(idx[:c]))


def splits3(m, full):
    idx = list(range(m))
    if full:
        for labels in itertools.product(range(3), repeat=m):
            if set(labels) != {0, 1, 2}:
                continue
            yield tuple(tuple(i for i in idx if labels[i] == k)
                        for k in range(3))
    else:
        # contiguous 3-splits; above 8 jobs only cut points on a grid of
        # five positions (a 50-job corpus definition has 1176 otherwise)
        cuts = list(range(1, m))
        if m > 8:
            cuts = sorted({max(1, min(m - 1, round(m * q / 6)))
                           for q in range(1, 6)})
        for a in range(len(cuts)):
            for b in range(a + 1, len(cuts)):
                c1, c2 = cuts[a], cuts[b]
                yield (tuple(idx[:c1]), tuple(idx[c1:c2]), tuple(idx[c2:]))


def histories(m, tier, nev=0):
    # thorough: exhaustive splits up to 5 (4) jobs for definitions with <= 5
    # events; the 6-event definitions use the quick limits (an all-splits
    # sweep of F_6 would need ~2 h on 16 cores)
    deep = tier == "thorough" and nev <= 5
    full2 = m <= (5 if deep else 4)
    full3 = m <= (4 if deep else 3)
    out = []
    if m >= 2:
        out += list(splits2(m, full2))
    if m >= 3:
        out += list(splits3(m, full3))
    # idempotence: last chunk supplied again
    out += [h + (h[-1],) for h in list(out)]
    if m == 1:
        out = [((0,), (0,))]
    return out


def model_file_value(path):
    with open(path) as f:
        raw = json.load(f)
    out = {}
    for ev in raw["events"]:
        outs = frozenset(tuple(sorted((x["eventType"], x["count"])
                                      for x in s))
                         for s in ev["outgoingEventSets"])
        ins = frozenset(tuple(sorted((x["eventType"], x["count"])
                                     for x in s))
                        for s in ev["incomingEventSets"])
        if ev["eventType"] in out:
            return None
        out[ev["eventType"]] = (outs, ins)
    return raw["job_name"], out


# workflow names of the runs: plain, with blanks, with a dot (the name is the
# key under which a loaded model is matched and the stem of the files)
JOB_NAMES = ("x", "Users Service", "shop.checkout v2")


def job_name_of(defn):
    return JOB_NAMES[int(input_key(dsl.to_list(defn)), 16) % len(JOB_NAMES)]


def run_transition(workdir, tag, pv_jobs, model_in, jname="x"):
    """one real pv2puml run with -om (and -im).  returns dict"""
    from tel2puml.otel_to_puml import otel_to_puml
    from tel2puml.tel2puml_types import PVPumlOptions, GlobalOptions
    imp = os.path.join(workdir, f"in_{tag}")
    out = os.path.join(workdir, f"out_{tag}")
    os.makedirs(imp)
    files = []
    for k, job in enumerate(pv_jobs):
        fp = os.path.join(imp, f"job{k:04d}.json")
        with open(fp, "w") as f:
            json.dump(job, f)
        files.append(fp)
    sched.install(None)
    try:
        otel_to_puml(
            pv_to_puml_options=PVPumlOptions(
                file_list=files, job_name=jname, group_by_job_id=False),
            global_options=GlobalOptions(
                input_puml_models=[model_in] if model_in else [],
                output_puml_models=True),
            output_file_directory=out, components="pv2puml")
    except Exception as e:
        return {"status": "exc", "exc": type(e).__name__ + ": " + str(e)[:200]}
    stem = jname.replace(" ", "_")
    try:
        with open(os.path.join(out, stem + ".puml")) as f:
            text = f.read()
    except OSError as e:
        return {"status": "exc", "exc": "no diagram file: " + str(e)[-80:]}
    return {"status": "ok", "text": text,
            "model": os.path.join(out, stem + "_model.json")}


def check_def(defn, tier):
    impl_pv.imports()
    jname = job_name_of(defn)
    from tel2puml.events import load_events_from_file
    st = semantics.Stats()
    jobs = semantics.executions(defn, 2, st)
    m = len(jobs)
    workdir = impl_otel.scratch_dir()
    problems = []
    stats = {"transitions": 0, "histories": 0, "no_new_evidence": 0,
             "states": set()}
    try:
        allpv = present.present(jobs)
        one = run_transition(workdir, "oneshot", allpv, None, jname)
        stats["transitions"] += 1
        fp_one = one["status"] if one["status"] != "ok" else \
            pvcommon.fingerprint(one["text"])
        memo = {}
        types_all = {t for j in jobs for _, t, _ in j}
        for hi, hist in enumerate(histories(m, tier, len(dsl.event_names(defn)))):
            stats["histories"] += 1
            model = None
            last = None
            seen_jobs = []
            prefix = ()
            for ci, chunk in enumerate(hist):
                prefix = prefix + (chunk,)
                if prefix in memo:
                    last = memo[prefix]
                else:
                    # fresh ids per chunk occurrence (a repeated chunk is a
                    # re-delivery of the same jobs under new ids)
                    pv = [present.to_pv(jobs[i], f"h{hi}c{ci}j{i}")
                          for i in chunk]
                    last = run_transition(workdir, f"h{hi}_{ci}", pv, model,
                                          jname)
                    stats["transitions"] += 1
                    if last["status"] == "ok":
                        got = model_file_value(last["model"])
                        ref = semantics.model_of_jobs(
                            pvcommon.with_dummy_start(
                                [jobs[i] for c in prefix for i in c]))
                        if got is None or got[0] != jname or got[1] != ref:
                            last["model_problem"] = "saved model differs " \
                                "from the reference model of the chunks so far"
                        else:
                            name, evs = load_events_from_file(last["model"])
                            if impl_pv.model_value(evs) != ref:
                                last["model_problem"] = \
                                    "reloaded model differs from the saved one"
                        stats["states"].add(repr(sorted(
                            (k, sorted(v[0]), sorted(v[1]))
                            for k, v in (got[1] if got else {}).items())))
                    memo[prefix] = last
                if ci > 0:
                    chunk_types = {t for i in chunk for _, t, _ in jobs[i]}
                    prev_types = {t for c in prefix[:-1] for i in c
                                  for _, t, _ in jobs[i]}
                    if prev_types - chunk_types:
                        stats["no_new_evidence"] += 1
                if last["status"] != "ok":
                    break
                if last.get("model_problem"):
                    problems.append(["model_round_trip", hist[:ci + 1],
                                     last["model_problem"]])
                    break
                model = last["model"]
            covered = {i for c in hist for i in c}
            if last["status"] != "ok":
                if one["status"] == "ok":
                    problems.append(["chunked_run_fails", hist, last["exc"]])
                continue
            if len(covered) == m:
                fp = pvcommon.fingerprint(last["text"])
                if fp != fp_one:
                    problems.append(["diagram_differs_from_one_shot", hist,
                                     last["text"], one.get("text")])
    finally:
        shutil.rmtree(workdir, ignore_errors=True)
    stats["states"] = len(stats["states"])
    stats["sem_states"] = st.states
    stats["jobs"] = m
    return problems, stats


def stage_r(chunk_index, nchunks):
    """abstract models over {X,Y}: X has <= 2 outgoing and <= 2 incoming
    multisets with counts in {0..3}; save -> load -> save"""
    impl_pv.imports()
    from tel2puml.events import (Event, EventSet, save_events_to_file,
                                 load_events_from_file)
    ms = [(cx, cy) for cx in range(4) for cy in range(4) if cx or cy]
    fams = [()] + [(a,) for a in ms] + list(itertools.combinations(ms, 2))
    combos = list(itertools.product(fams, fams))
    mine = combos[chunk_index::nchunks]
    workdir = impl_otel.scratch_dir()
    problems = []
    n = 0
    tree_checked = set()

    def mk(fam):
        return {EventSet(["X"] * cx + ["Y"] * cy) for cx, cy in fam}
    try:
        p1 = os.path.join(workdir, "m1.json")
        p2 = os.path.join(workdir, "m2.json")
        for outs, ins in mine:
            n += 1
            ex = Event("X")
            ex.event_sets = mk(outs)
            ex.in_event_sets = mk(ins)
            ey = Event("Y")
            ey.in_event_sets = {EventSet(["X"])}
            events = {"X": ex, "Y": ey}
            want = impl_pv.model_value(events)
            save_events_to_file("job a", events, p1)
            name, loaded = load_events_from_file(p1)
            if name != "job a" or impl_pv.model_value(loaded) != want:
                problems.append(["round_trip", outs, ins])
                continue
            save_events_to_file(name, loaded, p2)
            if model_file_value(p1) != model_file_value(p2):
                problems.append(["second_save_differs", outs, ins])
            if outs and outs not in tree_checked:
                tree_checked.add(outs)
                try:
                    tree = loaded["X"].logic_gate_tree
                except Exception as e:
                    tree = None
                    problems.append(["gate_tree_exception", outs,
                                     type(e).__name__])
                if tree is None:
                    problems.append(["no_gate_tree_after_reload", outs, ins])
    finally:
        shutil.rmtree(workdir, ignore_errors=True)
    return problems, n


def handle(task):
    if task["kind"] == "R":
        problems, n = stage_r(task["i"], task["n"])
        return {"kind": "R", "problems": problems, "n": n}
    out = []
    for nm, d in task["defs"]:
        defn = dsl.to_tuple(d)
        problems, stats = check_def(defn, task["tier"])
        out.append({"name": nm, "defn": d, "problems": problems,
                    "stats": stats})
    return {"kind": "H", "out": out}


def build(tier, ctx):
    n = 4 if tier == "quick" else 6
    defs = pvcommon.scope_defs(ctx["repo"], n)
    defs += fragment.corpus_multiple_same(ctx["repo"])
    # long sequences (merge, loop ends far from the fork / loop start) and
    # the staged-merge and kill-in-loop families of C01
    defs += [("FX", d) for d in fragment.stretched_family(
        3 if tier == "quick" else 4, 10)]
    defs += [("FS", d) for d in fragment.staged_merge_family()]
    defs += [("FD", d) for d in fragment.kill_in_loop_family()]
    # wave 15: the small definitions again under event type names a model
    # file has to carry through unchanged: outer blanks and tabs, quotes and
    # backslashes, non-ASCII, names equal up to case or a trailing blank,
    # JSON literals and the keys of the model file itself
    odd = ({"A": "A ", "B": " B", "C": "C\t", "D": 'D "q" \\', "E": "\u00c9v",
            "F": "e\u0301", "G": "job_name", "H": "events"},
           {"A": "a", "B": "A", "C": "a ", "D": "true", "E": "null",
            "F": "event_type", "G": "0", "H": ""})
    for nm, d in pvcommon.scope_defs(ctx["repo"], 3 if tier == "quick" else 4,
                                     with_corpus=False):
        for mp in odd:
            defs.append((nm, dsl.map_names(d, mp)))
    # add the design's witness for "no new evidence for some events"
    tasks = [{"kind": "H", "tier": tier, "defs": [(nm, dsl.to_list(d))]}
             for nm, d in defs]
    nR = 16
    tasks += [{"kind": "R", "i": i, "n": nR} for i in range(nR)]
    return tasks


def collect(tier, tasks, results, ctx):
    viol = []
    states = trans = hist = nne = 0
    sem = 0
    nR = 0
    nontrivial = 0
    samples = []
    for t, r in zip(tasks, results):
        if r["kind"] == "R":
            nR += r["n"]
            for p in r["problems"]:
                viol.append({"key": input_key(["C04", "R", p]),
                             "what": f"abstract model X: out={p[1]} "
                                     f"in={p[2] if len(p) > 2 else ''}: {p[0]}",
                             "input": {"stage": "R", "case": p},
                             "observed": p[0]})
            continue
        for o in r["out"]:
            s = o["stats"]
            states += s["states"]
            trans += s["transitions"]
            hist += s["histories"]
            nne += s["no_new_evidence"]
            sem += s["sem_states"]
            if s["jobs"] >= 2:
                nontrivial += 1
            if len(samples) < 3 and s["histories"] >= 6:
                samples.append({"definition": dsl.show(dsl.to_tuple(o["defn"])),
                                "jobs": s["jobs"], "histories": s["histories"],
                                "example_history": "chunks [0] then [1..] "
                                "then [1..] again"})
            for p in o["problems"]:
                viol.append({
                    "key": input_key(["C04", o["defn"], p[0]]),
                    "what": f"{o['name']} {dsl.show(dsl.to_tuple(o['defn']))} "
                            f"history={p[1]}: {p[0]} {str(p[2])[:200]}",
                    "input": {"name": o["name"], "defn": o["defn"],
                              "history": p[1]},
                    "observed": p})
    he = None
    if nne == 0:
        he = "vacuous: no transition left an event type without new evidence"
    cov = {
        "states": states, "transitions": trans,
        "traces_validated_against_impl": hist,
        "evaluations": hist + nR, "distinct_nontrivial": nontrivial,
        "rule": "every definition of the scope: every ordered 2-/3-split of "
                "its job set (exhaustive for small job sets, contiguous "
                "otherwise), each also with the last chunk repeated; every "
                "chunk boundary crosses save-to-JSON/load-from-JSON through "
                "the real -om/-im path; Stage R: all abstract models in "
                "which event X has <= 2 outgoing and <= 2 incoming multisets "
                "over {X,Y} with counts 0..3; non-trivial = definitions "
                "with at least two jobs",
        "samples": samples or [{"note": "small scope"}],
        "exhaustive": True,
        "bounds": {"tier": tier,
                   "definitions": "F_4 + corpus" if tier == "quick"
                   else "F_6 + corpus"},
        "histories": hist, "abstract_models_round_tripped": nR,
        "transitions_without_new_evidence_for_some_event": nne,
        "states_meaning": "distinct saved model files; transitions = real "
                          "pv2puml runs with -om/-im",
    }
    return {"violations": viol, "coverage": cov, "harness_error": he,
            "assumptions": pvcommon.ASSUMPTIONS}


def replay(rec, ctx):
    i = rec["input"]
    if i.get("stage") == "R":
        return True, "Stage R case: re-run the check"
    problems, _ = check_def(dsl.to_tuple(i["defn"]), ctx["tier"])
    return bool(problems), repr([p[:2] for p in problems])[:300]
