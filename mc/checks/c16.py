"""C16 - PV timestamps and OTel nanosecond times convert consistently.

Exploration over a product grid (no sampling): ~4000 whole-second anchors x
edge microsecond values; all 10^6 microsecond values at several anchors (one
per float binade of the seconds value); every second of three days; every
midnight 1900-2100.  Integer reference (datetime + timedelta, no floats)."""
from datetime import datetime, timedelta

from ..findings import input_key

ID = "C16"
LEVEL = "exploration"
HANDLER = "mc.checks.c16:handle"
TIMEOUT = 900.0
EPOCH = datetime(1970, 1, 1)
MINS = int((datetime(1900, 1, 1) - EPOCH).total_seconds())
MAXS = int((datetime(2100, 12, 31, 23, 59, 59) - EPOCH).total_seconds())


def ref_string(us):
    return (EPOCH + timedelta(microseconds=us)).strftime(
        "%Y-%m-%dT%H:%M:%S.%fZ")


def anchors():
    out = {0}
    # wave 14: instants before the epoch (negative nanoseconds) belong to the
    # domain as well: 1900 .. 2100
    for y in range(1900, 2101):
        for m in range(1, 13):
            out.add(int((datetime(y, m, 1) - EPOCH).total_seconds()))
        out.add(int((datetime(y, 2, 28, 23, 59, 59) - EPOCH).total_seconds()))
        out.add(int((datetime(y, 3, 1) - EPOCH).total_seconds()))
        out.add(int((datetime(y, 12, 31, 23, 59, 59) - EPOCH).total_seconds()))
        try:
            out.add(int((datetime(y, 2, 29, 12) - EPOCH).total_seconds()))
        except ValueError:
            pass
    for k in range(0, 33):
        for d in (-1, 0, 1):
            out.add(2 ** k + d)
            out.add(-(2 ** k) + d)
    for k in range(0, 10):
        for d in (-1, 0, 1):
            out.add(10 ** k + d)
            out.add(-(10 ** k) + d)
    return sorted(s for s in out if MINS <= s <= MAXS)


M_EDGE = sorted({0, 1, 2, 9, 10, 11, 99, 100, 101, 999, 1000, 1001, 9999,
                 10000, 99999, 100000, 123456, 249999, 250000, 250001,
                 333333, 499998, 499999, 500000, 500001, 500002, 654321,
                 749999, 750000, 750001, 899999, 900000, 999000, 999989,
                 999990, 999997, 999998, 999999})
R_NS = (0, 1, 499, 500, 501, 999)


def binade_anchors(n):
    """one anchor per float binade of the seconds value, 2^20 .. 2^32"""
    ks = list(range(20, 32))
    sel = ks if n >= len(ks) else ks[-n:]
    out = []
    for k in sel:
        s = 2 ** k + 2 ** (k - 1) + 12345
        if s <= MAXS:
            out.append(s)
    if n > len(out):
        out += [1_700_000_000, 1_000_000_000, MAXS - 86400, 86399][:n - len(out)]
    return out


def check_us(sec, us, to_pv, to_ns, bad, cap=20, to_span=None):
    """one microsecond-precision instant through both converters"""
    total_us = sec * 1_000_000 + us
    ns = total_us * 1000
    exp = ref_string(total_us)
    try:
        got = to_pv(ns)
    except Exception as e:
        got = "EXC " + type(e).__name__
    if got != exp:
        if len(bad) < cap:
            bad.append(["ns_to_pv", ns, got, exp])
        else:
            bad.append(None)
    try:
        back = to_ns(exp)
    except Exception as e:
        back = "EXC " + type(e).__name__
    if back != ns:
        if len(bad) < cap:
            bad.append(["pv_to_ns", exp, back, ns])
        else:
            bad.append(None)
    # other spellings of the same instant: trailing zeros of the fraction
    # dropped (".5Z", ".123Z"), no fraction at all for whole seconds
    if us % 10 == 0:
        head, frac = exp[:-1].split(".")
        frac = frac.rstrip("0")
        for alt in ([head + "." + frac + "Z"] if frac else
                    [head + "Z", head + ".0Z"]):
            try:
                back = to_ns(alt)
            except Exception as e:
                back = "EXC " + type(e).__name__
            if back != ns:
                if len(bad) < cap:
                    bad.append(["pv_to_ns", alt, back, ns])
                else:
                    bad.append(None)
    if to_span is not None:
        # the PV -> OTel path of the tool: pv_event_to_otel
        try:
            sp = to_span({"jobId": "j", "eventId": "e", "timestamp": exp,
                          "applicationName": "a", "jobName": "n",
                          "eventType": "t"})
            st = (sp["start_time_unix_nano"], sp["end_time_unix_nano"])
        except Exception as e:
            st = "EXC " + type(e).__name__
        if st != (ns, ns):
            if len(bad) < cap:
                bad.append(["pv_event_to_otel", exp, st, [ns, ns]])
            else:
                bad.append(None)
    return got


# process time zones (POSIX rules, no tz database needed): the conversion
# must not depend on where the tool runs
ZONES = {"london": "GMT0BST,M3.5.0/1,M10.5.0",
         "new_york": "EST5EDT,M3.2.0,M11.1.0",
         "kolkata": "IST-5:30"}


def set_zone(tz):
    import os
    import time
    os.environ["TZ"] = tz or "UTC0"
    time.tzset()


def handle(task):
    set_zone(ZONES.get(task.get("tz")))
    try:
        r = _handle(task)
    finally:
        set_zone(None)
    for b in r["bad"]:
        b.append(task.get("tz"))
    return r


def _handle(task):
    from tel2puml.utils import unix_nano_to_pv_string as to_pv
    from tel2puml.pv_to_tel import convert_timestamp_to_unix_nano as to_ns
    from tel2puml.pv_to_tel import pv_event_to_otel as to_span
    bad = []
    n = 0
    distinct = 0
    kind = task["kind"]
    if kind == "grid":
        for sec in task["secs"]:
            prev = None
            for us in M_EDGE:
                got = check_us(sec, us, to_pv, to_ns, bad, to_span=to_span)
                n += 1
                distinct += 1
                # monotone on the enumerated chain
                if prev is not None and not (prev < got):
                    bad.append(["not_monotone", sec, us, prev, got])
                prev = got
                # sub-microsecond inputs: instant within 1 us
                for r in R_NS[1:]:
                    ns = (sec * 1_000_000 + us) * 1000 + r
                    n += 1
                    try:
                        s = to_pv(ns)
                    except Exception as e:
                        s = "EXC " + type(e).__name__
                    lo = ref_string(sec * 1_000_000 + us)
                    hi = ref_string(sec * 1_000_000 + us + 1)
                    if s not in (lo, hi):
                        if len(bad) < 20:
                            bad.append(["ns_to_pv_subus", ns, s, [lo, hi]])
                        else:
                            bad.append(None)
    elif kind == "allus":
        sec = task["sec"]
        prev = None
        for us in range(task["lo"], task["hi"]):
            got = check_us(sec, us, to_pv, to_ns, bad, to_span=to_span)
            n += 1
            distinct += 1
            if prev is not None and not (prev < got):
                bad.append(["not_monotone", sec, us, prev, got])
            prev = got
    elif kind == "seconds":
        for sec in range(task["lo"], task["hi"]):
            check_us(sec, 0, to_pv, to_ns, bad, to_span=to_span)
            check_us(sec, 999999, to_pv, to_ns, bad, to_span=to_span)
            n += 2
            distinct += 2
    nbad = len(bad)
    return {"n": n, "distinct": distinct, "bad": [b for b in bad if b],
            "nbad": nbad}


def build(tier, ctx):
    tasks = []
    an = anchors()
    for i in range(0, len(an), 100):
        tasks.append({"kind": "grid", "secs": an[i:i + 100]})
    nb = 4 if tier == "quick" else 16
    # all 10^6 microseconds also at one second before the epoch (1969) and at
    # one early in the century (negative nanoseconds)
    for sec in binade_anchors(nb) + [-1, -86400 * 365 * 2 - 12345,
                                     MINS + 86399]:
        for lo in range(0, 1_000_000, 125_000):
            tasks.append({"kind": "allus", "sec": sec, "lo": lo,
                          "hi": lo + 125_000})
    days = [int((datetime(y, m, d) - EPOCH).total_seconds())
            for y, m, d in ((1970, 1, 1), (2024, 2, 29), (2100, 12, 31),
                            (1969, 12, 31), (1900, 1, 1))]
    for d0 in days:
        for lo in range(d0, d0 + 86400, 21600):
            tasks.append({"kind": "seconds", "lo": lo, "hi": lo + 21600})
    mids = [int((datetime(y, 1, 1) - EPOCH).total_seconds()) + 86400 * k
            for y in range(1900, 2101) for k in (0, 58, 59, 60, 180, 364)]
    for i in range(0, len(mids), 200):
        tasks.append({"kind": "grid", "secs": mids[i:i + 200]})
    # the same conversions with the process in other time zones: seasonal
    # anchors of every year, and every second of the days on which the UK
    # and the US change their clocks
    for tz in ZONES:
        for i in range(0, len(mids), 200):
            tasks.append({"kind": "grid", "secs": mids[i:i + 200], "tz": tz})
        for y, m, d in ((2024, 3, 10), (2024, 3, 31), (2024, 10, 27),
                        (2024, 11, 3)):
            d0 = int((datetime(y, m, d) - EPOCH).total_seconds())
            tasks.append({"kind": "seconds", "lo": d0, "hi": d0 + 86400,
                          "tz": tz})
    return tasks


def collect(tier, tasks, results, ctx):
    viol = []
    n = distinct = trunc = 0
    for t, r in zip(tasks, results):
        n += r["n"]
        distinct += r["distinct"]
        trunc += r["nbad"] - len(r["bad"])
        for b in r["bad"]:
            tz, b = b[-1], b[:-1]
            viol.append({"key": input_key(["C16", b[0], b[1]] +
                                          ([tz] if tz else [])),
                         "what": f"{b[0]}({b[1]}) = {b[2]!r}, reference "
                                 f"{b[3]!r}" + (f" [TZ={ZONES[tz]}]"
                                                if tz else ""),
                         "input": {"fn": b[0], "arg": b[1], "tz": tz},
                         "observed": b[2], "expected": b[3]})
    cov = {
        "evaluations": n, "distinct_nontrivial": distinct,
        "rule": "product grid: whole-second anchors (month starts, leap days, "
                "year ends, +-2^k, +-10^k +-1; 1900..2100) x edge microsecond "
                "values x sub-microsecond remainders; all 10^6 microsecond "
                "values at several anchors (one per float binade of the "
                "seconds value); every second of three days; "
                "distinct_nontrivial = distinct microsecond-precision "
                "instants pushed through both converters and the round trip",
        "samples": [{"ns": 1705314620123456000,
                     "pv": "2024-01-15T10:30:20.123456Z"}],
        "exhaustive": True,
        "bounds": {"tier": tier, "anchors": len(anchors()),
                   "edge_us": len(M_EDGE),
                   "full_microsecond_sweeps": 4 if tier == "quick" else 16,
                   "process_time_zones": ["UTC"] + sorted(ZONES.values())},
        "violations_not_itemised": trunc,
    }
    return {"violations": viol, "coverage": cov, "harness_error": None,
            "assumptions": ["integer reference: datetime(1970,1,1) + "
                            "timedelta(microseconds=...)",
                            "for inputs that are not whole microseconds only "
                            "'within 1 us' is demanded (rounding versus "
                            "truncation is not decided by the property)"]}


def replay(rec, ctx):
    from tel2puml.utils import unix_nano_to_pv_string as to_pv
    from tel2puml.pv_to_tel import convert_timestamp_to_unix_nano as to_ns
    i = rec["input"]
    set_zone(ZONES.get(i.get("tz")))
    if i["fn"].startswith("ns_to_pv"):
        got = to_pv(i["arg"])
        exp = rec["expected"]
        ok = got == exp if isinstance(exp, str) else got in exp
    elif i["fn"] == "pv_to_ns":
        got = to_ns(i["arg"])
        ok = got == rec["expected"]
    elif i["fn"] == "pv_event_to_otel":
        from tel2puml.pv_to_tel import pv_event_to_otel
        sp = pv_event_to_otel({"jobId": "j", "eventId": "e",
                               "timestamp": i["arg"], "applicationName": "a",
                               "jobName": "n", "eventType": "t"})
        got = [sp["start_time_unix_nano"], sp["end_time_unix_nano"]]
        ok = got == list(rec["expected"])
    else:
        return True, "monotonicity case: re-run the check"
    return (not ok), f"{i['fn']}({i['arg']}) = {got!r}, reference {rec['expected']!r}"
