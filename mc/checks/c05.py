"""C05 - emitted PlantUML is well-formed and names exactly the observed events."""
from .. import dsl, fragment
from . import pvcommon, pvsweep

ID = "C05"
LEVEL = "exploration"
HANDLER = "mc.checks.pvsweep:handle"
TIMEOUT = 180.0
ACCEPTED_ERRORS = ("timeout",)


REAL_NAMES = {"A": "Order received", "B": "svc.payment/charge",
              "C": "GET /api/v1/items", "D": "db-write_2", "E": "x",
              "F": "Step 10", "G": "notify (email)", "H": "a:b"}

# unusual but legitimate event type names (wave 13): names that are prefixes
# of one another or differ only in case / blanks, names that resemble words
# the tool or the dialect uses itself, digits, non-ASCII, punctuation, long
# names.  (Names of the exact internal forms LOOP_<n>, DUMMY_BREAK,
# |||START||| are not used: the property calls them placeholders.)
NAME_MAPS = {
    "real": REAL_NAMES,
    "prefix": {"A": "A", "B": "AA", "C": "A A", "D": "AAA", "E": "A_A",
               "F": "a", "G": "Aa", "H": "A.A"},
    "digits": {"A": "1", "B": "2", "C": "10", "D": "01", "E": "1.0",
               "F": "-1", "G": "0", "H": "1e3"},
    "unicode": {"A": "Zahlung best\u00e4tigt", "B": "\u652f\u4ed8",
                "C": "na\u00efve caf\u00e9", "D": "\u03a9",
                "E": "go \U0001f680", "F": "a b", "G": "\u00e9",
                "H": "e\u0301"},
    "punct": {"A": "a (b)", "B": "[x]", "C": "{y}", "D": "a|b", "E": "a\"b",
              "F": "'q'", "G": "<<s>>", "H": "#tag"},
    "keywords": {"A": "end fork", "B": "fork again", "C": "end split",
                 "D": "endswitch", "E": "repeat while", "F": "detach",
                 "G": "case", "H": "switch"},
    "long": {k: k * 120 for k in "ABCDEFGH"},
}
# words the tool, its intermediate representations or the dialect use
# themselves; every word is placed both early and late in the definition
_WORDS = ["START", "END", "LOOP", "BREAK", "DUMMY", "LOOPBACK", "XOR", "tau",
          "EVENT_LOOP_1", "AND", "OR", "START_LOOP", "KILL", "PATH",
          "END LOOP", "None", "DETACH", "MERGE", "NOT", "IF", "ELSE", "kill",
          "START_XOR", "NODE"]
for _k in range(0, len(_WORDS), 4):
    _w = _WORDS[_k:_k + 4]
    NAME_MAPS[f"internal{_k // 4}"] = dict(zip("ABCD", _w),
                                           E="e", F="f", G="g", H="h")
    NAME_MAPS[f"internal{_k // 4}r"] = dict(zip("DCBA", _w),
                                            E="e", F="f", G="g", H="h")
PUML_NAMES = {"real": "Users Service", "punct": "shop.checkout v2",
              "unicode": "Auftr\u00e4ge", "digits": "42"}


def build(tier, ctx):
    n = 5 if tier == "quick" else 7
    defs = pvcommon.scope_defs(ctx["repo"], n)
    defs += [("F+", d) for d in fragment.F_plus_extra(n - 1)]
    defs += pvcommon.extended_defs(5 if tier == "quick" else 6,
                                   stretched=(4, 10) if tier == "quick"
                                   else (5, 10))
    defs += pvcommon.skeleton_defs(tier)
    tasks = [{"name": nm, "defn": dsl.to_list(d), "k": 2,
              "pres": ["canonical", "reversed"], "mode": "c05"}
             for nm, d in defs]
    for hs in (1, 2, 3):
        for nm, d in pvcommon.extended_defs(0, staged=True, bunched=False,
                                            stretched=None):
            tasks.append({"name": nm, "defn": dsl.to_list(d), "k": 2,
                          "pres": ["canonical"], "mode": "c05", "seed": hs})
    # the same small definitions under realistic event names
    for mp, names in pvcommon.joined_name_maps().items():
        for nm, d in pvcommon.scope_defs(ctx["repo"], 4, with_corpus=False):
            if dsl.constructs(d) & {"and", "or", "xor"}:
                tasks.append({"name": nm, "defn": dsl.to_list(d), "k": 2,
                              "pres": ["canonical"], "mode": "c05",
                              "names": names, "names_map": mp})
    for mp, names in NAME_MAPS.items():
        for nm, d in pvcommon.scope_defs(ctx["repo"],
                                         4 if tier == "quick" else 5,
                                         with_corpus=False):
            t = {"name": nm, "defn": dsl.to_list(d), "k": 2,
                 "pres": ["canonical"], "mode": "c05", "names": names,
                 "names_map": mp}
            if mp in PUML_NAMES:
                t["puml"] = PUML_NAMES[mp]
            tasks.append(t)
    return tasks


def collect(tier, tasks, results, ctx):
    results = [r if not r.get("_error") else
               {"runs": [], "jobs": 0, "states": 0, "transitions": 0}
               for r in results]
    bounds = {"tier": tier,
              "definitions": ("F_5" if tier == "quick" else "F_7") +
              " + multi-start variants + 63 corpus + C01's extended "
              "families and skeletons; small definitions again under "
              "realistic event names (counts: tasks_per_family)",
              "presentations": ["canonical", "reversed"]}
    rule = ("every definition of F+ (F plus variants with several start "
            "events) and the corpus; the emitted text is parsed by a strict "
            "recursive-descent grammar of the emitted dialect and its event "
            "names compared with the input event types; non-trivial = "
            "definitions with a fork or loop")
    out = pvsweep.collect_generic(ID, tier, tasks, results, bounds, rule,
                                  LEVEL)
    return out


def seed_of(task):
    return task.get("seed", 0)


def replay(rec, ctx):
    return pvsweep.replay_generic(rec)
