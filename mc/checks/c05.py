"""C05 - emitted PlantUML is well-formed and names exactly the observed events."""
from .. import dsl, fragment
from . import pvcommon, pvsweep

ID = "C05"
LEVEL = "exploration"
HANDLER = "mc.checks.pvsweep:handle"
TIMEOUT = 180.0
ACCEPTED_ERRORS = ("timeout",)


REAL_NAMES = {"A": "Order received", "B": "svc.payment/charge",
              "C": "GET /api/v1/items", "D": "db-write_2", "E": "x",
              "F": "Step 10", "G": "notify (email)", "H": "a:b"}


def build(tier, ctx):
    n = 5 if tier == "quick" else 7
    defs = pvcommon.scope_defs(ctx["repo"], n)
    defs += [("F+", d) for d in fragment.F_plus_extra(n - 1)]
    defs += pvcommon.extended_defs(5 if tier == "quick" else 6,
                                   stretched=(4, 10) if tier == "quick"
                                   else (5, 10))
    defs += pvcommon.skeleton_defs(tier)
    tasks = [{"name": nm, "defn": dsl.to_list(d), "k": 2,
              "pres": ["canonical", "reversed"], "mode": "c05"}
             for nm, d in defs]
    for hs in (1, 2, 3):
        for nm, d in pvcommon.extended_defs(0, staged=True, bunched=False,
                                            stretched=None):
            tasks.append({"name": nm, "defn": dsl.to_list(d), "k": 2,
                          "pres": ["canonical"], "mode": "c05", "seed": hs})
    # the same small definitions under realistic event names
    for nm, d in pvcommon.scope_defs(ctx["repo"], 4 if tier == "quick" else 5,
                                     with_corpus=False):
        tasks.append({"name": nm, "defn": dsl.to_list(d), "k": 2,
                      "pres": ["canonical"], "mode": "c05",
                      "names": REAL_NAMES})
    return tasks


def collect(tier, tasks, results, ctx):
    results = [r if not r.get("_error") else
               {"runs": [], "jobs": 0, "states": 0, "transitions": 0}
               for r in results]
    bounds = {"tier": tier,
              "definitions": ("F_5" if tier == "quick" else "F_7") +
              " + multi-start variants + 63 corpus + C01's extended "
              "families and skeletons; small definitions again under "
              "realistic event names (counts: tasks_per_family)",
              "presentations": ["canonical", "reversed"]}
    rule = ("every definition of F+ (F plus variants with several start "
            "events) and the corpus; the emitted text is parsed by a strict "
            "recursive-descent grammar of the emitted dialect and its event "
            "names compared with the input event types; non-trivial = "
            "definitions with a fork or loop")
    out = pvsweep.collect_generic(ID, tier, tasks, results, bounds, rule,
                                  LEVEL)
    return out


def seed_of(task):
    return task.get("seed", 0)


def replay(rec, ctx):
    return pvsweep.replay_generic(rec)
