"""C07 - loop extraction leaves an acyclic, complete, non-overlapping nesting.

Model checking of an invariant over the recursion of detect_loops: every
loop-bearing definition of F_n (and the corpus loop cases) x k in {2,3} x
pi in {id, rev}; real ingestion -> create_graph_from_events -> detect_loops;
invariant checked on the top graph and on every LoopEvent.sub_graph."""
import time

from .. import dsl, fragment, semantics, present, impl_pv
from ..findings import input_key
from . import pvcommon

ID = "C07"
LEVEL = "model_checking"
HANDLER = "mc.checks.c07:handle"
TIMEOUT = 600.0
CHUNK = 40
SPECIAL = ('|||START|||', '|||END|||', 'DUMMY_BREAK')


def build(tier, ctx):
    n = 7 if tier == "quick" else 9
    defs = []
    if tier == "quick":
        defs = [("F", d) for d in fragment.F(n) if fragment.has_loop(d)]
    else:
        # F_8 in full, F_9 restricted to fork depth <= 2 (size)
        defs = [("F", d) for d in fragment.F(8) if fragment.has_loop(d)]
        defs += [("F9", d) for d in fragment.F_exact(9, fork_depth=1)
                 if fragment.has_loop(d)]
    for nm, d in fragment.corpus(ctx["repo"]):
        if fragment.has_loop(d):
            defs.append((nm, d))
    # beyond F: loop bodies that begin with an inner loop (both loops share
    # their start event), staged merges with loops
    defs += [("FL", d) for d in fragment.F_leadloop(6 if tier == "quick"
                                                     else 7)]
    defs += [("FS", d) for d in fragment.staged_merge_family()
             if fragment.has_loop(d)]
    defs += [("FD", d) for d in fragment.kill_in_loop_family()]
    defs += [("FK", d) for d in fragment.loop_on_break_path_family(
        5 if tier == "quick" else 6)]
    # decision nodes with a silent break next to evented breaks
    defs += [("FE", d) for d in fragment.silent_break_family()]
    # long sequences between loop start, loop end and exits
    defs += [("FX", d) for d in fragment.stretched_family(
        4 if tier == "quick" else 5, 10) if fragment.has_loop(d)]
    # waves 13-14: the loop definitions of F_5 (F_6) under event names that
    # contain words the loop code uses itself, digits / underscores as in the
    # generated loop names, and names equal up to case
    odd = ({"A": "LOOP", "B": "LOOPBACK", "C": "EVENT_LOOP_1", "D": "START",
            "E": "END", "F": "DUMMY", "G": "BREAK"},
           {"A": "STEP_2", "B": "STEP_10", "C": "step_2", "D": "LOOP_x",
            "E": "X_LOOP_7", "F": "2", "G": "_"},
           {"A": "E", "B": "D", "C": "C", "D": "B", "E": "A", "F": "a",
            "G": "b"})
    for d in fragment.F(5 if tier == "quick" else 6):
        if fragment.has_loop(d):
            for mp in odd:
                defs.append(("F", dsl.map_names(d, mp)))
    tasks = []
    for i in range(0, len(defs), CHUNK):
        tasks.append({"defs": [(nm, dsl.to_list(d))
                               for nm, d in defs[i:i + CHUNK]]})
    return tasks


K3_CAP = 200


def check_one(defn, k, pi):
    """returns (problems, stats dict); None when k=3 exceeds the job cap"""
    import networkx as nx
    impl_pv.imports()
    from tel2puml.events import create_graph_from_events
    from tel2puml.loop_detection.detect_loops import detect_loops
    from tel2puml.loop_detection.loop_types import LoopEvent
    from copy import deepcopy
    st = semantics.Stats()
    try:
        jobs = semantics.executions(defn, k, st,
                                    cap=K3_CAP if k == 3 else None)
    except semantics.TooMany:
        return None
    pv = present.present(jobs)
    events = impl_pv.ingest(pv, add_dummy_start=True, pi=pi)
    # binding (iii): learned model == reference model of the jobs
    ref = semantics.model_of_jobs(pvcommon.with_dummy_start(jobs))
    got = impl_pv.model_value(events)
    problems = []
    if ref != got:
        problems.append(("ingestion_model_mismatch",))
    g0 = create_graph_from_events(deepcopy(events).values())
    types0 = {e.event_type for e in g0.nodes}
    sccs0 = [{e.event_type for e in s}
             for s in nx.strongly_connected_components(g0)
             if len(s) > 1 or any(g0.has_edge(n, n) for n in s)]
    cyc_edges = set()
    for comp in nx.strongly_connected_components(g0):
        if len(comp) > 1 or any(g0.has_edge(n, n) for n in comp):
            for u, v in g0.edges():
                if u in comp and v in comp:
                    cyc_edges.add((u.event_type, v.event_type))
    try:
        g = detect_loops(g0)
    except Exception as e:  # the real code failed: a finding, not a harness error
        return [("exception", type(e).__name__, str(e)[:200])], \
            {"states": st.states, "transitions": st.transitions, "graphs": 0,
             "loops": 0, "jobs": len(jobs), "sccs": len(sccs0)}
    seen = []
    bodies = []
    counts = {"graphs": 0, "loops": 0}

    def rec(g, top, path, start_uid=None):
        counts["graphs"] += 1
        if not nx.is_directed_acyclic_graph(g):
            problems.append(("cyclic", path))
        roots = [n for n, deg in g.in_degree() if deg == 0]
        if len(roots) != 1:
            problems.append(("entries", path,
                             sorted(r.event_type for r in roots)))
        else:
            r = roots[0]
            if len(nx.descendants(g, r)) + 1 != g.number_of_nodes():
                problems.append(("unreachable", path))
            if top and r.event_type != '|||START|||':
                problems.append(("entry_not_start", path, r.event_type))
            if not top and start_uid is not None and r.uid != start_uid:
                problems.append(("entry_not_loop_start", path, r.event_type))
        inner = set()
        for n in g.nodes:
            if isinstance(n, LoopEvent):
                counts["loops"] += 1
                try:
                    su = n.start_uid
                except AttributeError:
                    su = None
                    problems.append(("loop_without_start", path))
                inner |= rec(n.sub_graph, False, path + [n.event_type], su)
            elif n.event_type not in SPECIAL:
                seen.append(n.event_type)
                inner.add(n.event_type)
        if not top:
            bodies.append(inner)
        return inner
    rec(g, True, [])
    from collections import Counter
    c = Counter(seen)
    exp = types0 - {'|||START|||'}
    if set(c) != exp:
        problems.append(("types", sorted(exp - set(c)), sorted(set(c) - exp)))
    amb = pvcommon.types_at_several_loop_positions(defn)
    dups = sorted(t for t, v in c.items() if v > 1 and t not in amb)
    if dups:
        problems.append(("duplicated", dups))
    for s in sccs0:
        if not any(s <= b for b in bodies):
            problems.append(("scc_not_in_body", sorted(s)))
    # no cyclic dependency is lost: every edge of the input graph that lies
    # on a cycle is an edge of some graph of the nesting (between the nodes
    # that contain its end points) or the loop-back edge of a loop (source
    # leads to the loop's end, target follows the loop's start)
    lost = unexplained_cycle_edges(g, cyc_edges, LoopEvent)
    if lost:
        problems.append(("cycle_edge_lost", sorted(lost)[:4]))
    # reference knowledge: every loop body of the definition lies in a body
    observed = {t for j in jobs for _, t, _ in j}
    for body_types in pvcommon.loop_bodies(defn):
        body_types = body_types & observed   # dead code after an all-detach fork
        if body_types and not any(body_types <= b for b in bodies):
            problems.append(("def_loop_not_in_body", sorted(body_types)))
    return problems, {"states": st.states, "transitions": st.transitions,
                      "graphs": counts["graphs"], "loops": counts["loops"],
                      "jobs": len(jobs), "sccs": len(sccs0)}


def unexplained_cycle_edges(top, cyc_edges, LoopEvent):
    graphs = []   # (graph, {type: containing node})

    def contained(n):
        if isinstance(n, LoopEvent):
            acc = set()
            for m in n.sub_graph.nodes:
                acc |= contained(m)
            return acc
        return {n.event_type}

    def walk(g):
        cmap = {}
        for n in g.nodes:
            for t in contained(n):
                cmap[t] = n
            if isinstance(n, LoopEvent):
                walk(n.sub_graph)
        graphs.append((g, cmap))
    walk(top)
    lost = set()
    for u, v in cyc_edges:
        ok = False
        for g, cmap in graphs:
            if u not in cmap or v not in cmap:
                continue
            nu, nv = cmap[u], cmap[v]
            if nu is nv and isinstance(nu, LoopEvent):
                continue      # decided deeper in the nesting
            if nu is not nv and g.has_edge(nu, nv):
                ok = True
                break
            starts = [n for n in g.nodes if n.event_type == '|||START|||']
            ends = [n for n in g.nodes if n.event_type == '|||END|||']
            if any(g.has_edge(s_, nv) for s_ in starts) and \
                    any(g.has_edge(nu, e_) for e_ in ends):
                ok = True
                break
        if not ok:
            lost.add((u, v))
    return lost


def handle(task):
    out = []
    for nm, d in task["defs"]:
        defn = dsl.to_tuple(d)
        for k in (2, 3):
            for pi in ("id", "rev"):
                r = check_one(defn, k, pi)
                if r is None:
                    break
                problems, st = r
                out.append({"name": nm, "defn": d, "k": k, "pi": pi,
                            "problems": problems, "st": st})
    return {"runs": out}


def collect(tier, tasks, results, ctx):
    viol = []
    states = trans = traces = evals = 0
    graphs = loops = 0
    nontrivial = set()
    nested = set()
    samples = []
    outcomes = {}
    for r in results:
        for run in r["runs"]:
            evals += 1
            st = run["st"]
            states += st["states"] + st["graphs"]
            trans += st["transitions"] + st["loops"]
            traces += st["jobs"]
            graphs += st["graphs"]
            loops += st["loops"]
            dk = input_key(run["defn"])
            if st["loops"] >= 1:
                nontrivial.add(dk)
            if st["graphs"] >= 3:
                nested.add(dk)
            oc = "ok" if not run["problems"] else run["problems"][0][0]
            outcomes[oc] = outcomes.get(oc, 0) + 1
            if len(samples) < 5 and st["graphs"] >= 3 and run["pi"] == "id":
                samples.append({"definition": dsl.show(dsl.to_tuple(run["defn"])),
                                "k": run["k"], "jobs": st["jobs"],
                                "graphs_in_nesting": st["graphs"],
                                "loops": st["loops"]})
            if run["problems"]:
                viol.append({
                    "key": input_key([run["defn"]]),
                    "what": f"{dsl.show(dsl.to_tuple(run['defn']))} k={run['k']} "
                            f"pi={run['pi']}: {run['problems'][:3]}",
                    "input": {"name": run["name"], "defn": run["defn"],
                              "k": run["k"], "pi": run["pi"]},
                    "observed": run["problems"]})
    he = None
    if loops == 0 or not nested:
        he = "vacuous: no loop extracted / no nested loop in scope"
    cov = {
        "states": states, "transitions": trans,
        "traces_validated_against_impl": traces,
        "evaluations": evals, "distinct_nontrivial": len(nontrivial),
        "rule": "every loop-bearing definition of fragment F up to the bound "
                "(plus corpus loop cases) x k in {2,3} x hash-rank schedule "
                "{id,rev}; non-trivial = distinct definitions for which "
                "detect_loops produced at least one loop node",
        "samples": samples, "exhaustive": True,
        "bounds": {"tier": tier,
                   "events": "F_7" if tier == "quick" else
                   "F_8 + F_9 with fork depth 1",
                   "k": "2, and 3 where J_3 has <= 200 jobs", "pi": ["id", "rev"]},
        "graphs_checked": graphs, "loop_nodes": loops,
        "definitions_with_nested_loops": len(nested),
        "outcomes": outcomes,
        "states_meaning": "token-game configurations of the job generator + "
                          "graphs of the loop nesting on which the invariant "
                          "was evaluated; transitions = event firings + loop "
                          "extractions",
    }
    return {"violations": viol, "coverage": cov, "harness_error": he,
            "assumptions": pvcommon.ASSUMPTIONS}


def replay(rec, ctx):
    i = rec["input"]
    problems, st = check_one(dsl.to_tuple(i["defn"]), i["k"], i["pi"])  # noqa
    return bool(problems), repr(problems[:3])
