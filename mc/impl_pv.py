"""Thin adapters around the real pv2puml entry points."""
import traceback


def imports():
    import tel2puml.events  # noqa: F401  (must precede logic_detection)
    import tel2puml.logic_detection  # noqa: F401
    from tel2puml.pv_to_puml.pv_to_puml import pv_to_puml_string
    return pv_to_puml_string


def run_pipeline(pv_jobs, name="x", pi=None):
    """-> dict(status ok|exc, text, exc)"""
    from . import sched
    pv_to_puml_string = imports()
    sched.install(pi)
    try:
        text = pv_to_puml_string(pv_jobs, name)
        return {"status": "ok", "text": text}
    except RecursionError:
        return {"status": "exc", "exc": "RecursionError", "text": None}
    except Exception as e:
        return {"status": "exc",
                "exc": type(e).__name__ + ": " + str(e)[:300],
                "trace": traceback.format_exc()[-1500:], "text": None}


def ingest(pv_jobs, add_dummy_start=False, events=None, pi=None):
    from . import sched
    imports()
    from tel2puml.pv_to_puml.data_ingestion import (
        update_and_create_events_from_clustered_pvevents)
    sched.install(pi)
    return update_and_create_events_from_clustered_pvevents(
        pv_jobs, add_dummy_start=add_dummy_start, events=events)


def model_value(events):
    """canonical value of a learned model: type -> (out multisets, in multisets)"""
    out = {}
    for t, e in events.items():
        outs = frozenset(tuple(sorted(es.items()))
                         for es in e.event_sets)
        ins = frozenset(tuple(sorted(es.items()))
                        for es in e.in_event_sets)
        out[t] = (outs, ins)
    return out
