"""Job-definition AST, printer (tool dialect), tolerant parser and strict grammar.

AST (hashable, JSON friendly once tuples become lists):
  seq   = tuple of items
  item  = ('ev', name) | ('and'|'or'|'xor', (seq, ...)) | ('loop', seq)
        | ('break',) | ('detach',)
"""
import re


def to_tuple(x):
    """JSON lists -> hashable AST"""
    if isinstance(x, (list, tuple)):
        return tuple(to_tuple(y) for y in x)
    return x


def to_list(x):
    if isinstance(x, (list, tuple)):
        return [to_list(y) for y in x]
    return x


def show(seq):
    """compact one-line rendering used in reports"""
    out = []
    for it in seq:
        t = it[0]
        if t == 'ev':
            out.append(it[1])
        elif t in ('break', 'detach'):
            out.append(t)
        elif t == 'loop':
            out.append('loop[' + show(it[1]) + ']')
        else:
            out.append(t + '[' + '|'.join(show(b) for b in it[1]) + ']')
    return ' '.join(out)


def event_names(seq, acc=None):
    acc = [] if acc is None else acc
    for it in seq:
        if it[0] == 'ev':
            acc.append(it[1])
        elif it[0] == 'loop':
            event_names(it[1], acc)
        elif it[0] in ('and', 'or', 'xor'):
            for b in it[1]:
                event_names(b, acc)
    return acc


def constructs(seq, depth=0, acc=None):
    """set of construct tags occurring in a definition (for vacuity counters)"""
    acc = set() if acc is None else acc
    for it in seq:
        t = it[0]
        if t in ('break', 'detach'):
            acc.add(t)
        elif t == 'loop':
            acc.add('loop')
            if depth_has_loop(it[1]):
                acc.add('nested_loop')
            constructs(it[1], depth + 1, acc)
        elif t in ('and', 'or', 'xor'):
            acc.add(t)
            if depth >= 1:
                acc.add('nested')
            for b in it[1]:
                constructs(b, depth + 1, acc)
    return acc


def map_names(seq, mapping):
    """the same definition with its event names replaced"""
    out = []
    for it in seq:
        if it[0] == 'ev':
            out.append(('ev', mapping.get(it[1], it[1])))
        elif it[0] == 'loop':
            out.append(('loop', map_names(it[1], mapping)))
        elif it[0] in ('and', 'or', 'xor'):
            out.append((it[0], tuple(map_names(b, mapping) for b in it[1])))
        else:
            out.append(it)
    return tuple(out)


def depth_has_loop(seq):
    for it in seq:
        if it[0] == 'loop':
            return True
        if it[0] in ('and', 'or', 'xor') and any(depth_has_loop(b) for b in it[1]):
            return True
    return False


# --------------------------------------------------------------------------
# printer: the dialect the tool itself emits
# --------------------------------------------------------------------------
def print_puml(seq, name="x"):
    lines = ["@startuml", f'partition "{name}" {{', f'    group "{name}"']

    def emit(seq, ind):
        pad = "    " * ind
        for it in seq:
            t = it[0]
            if t == 'ev':
                lines.append(f"{pad}:{it[1]};")
            elif t in ('break', 'detach'):
                lines.append(pad + t)
            elif t == 'loop':
                lines.append(pad + "repeat")
                emit(it[1], ind + 1)
                lines.append(pad + "repeat while")
            elif t in ('and', 'or'):
                kw = 'fork' if t == 'and' else 'split'
                lines.append(pad + kw)
                for i, b in enumerate(it[1]):
                    if i:
                        lines.append(pad + kw + " again")
                    emit(b, ind + 1)
                lines.append(pad + "end " + kw)
            elif t == 'xor':
                lines.append(pad + "switch (XOR)")
                for b in it[1]:
                    lines.append(pad + '    case ("")')
                    emit(b, ind + 2)
                lines.append(pad + "endswitch")
            else:
                raise ValueError(t)
    emit(seq, 2)
    lines += ["    end group", "}", "@enduml"]
    return "\n".join(lines)


# --------------------------------------------------------------------------
# tolerant parser: corpus dialect + tool dialect
# --------------------------------------------------------------------------
class ParseError(Exception):
    pass


_EV = re.compile(r'(?:#\w+)?:(.*?);$')


def parse_puml(text):
    lines = [ln.strip() for ln in text.splitlines()]
    lines = [ln for ln in lines if ln and not ln.startswith(
        ('@', 'partition', 'group', 'end group', '}'))]
    pos = 0

    def at_stop(ln, stops):
        for s in stops:
            if ln == s or (s.endswith('(') and ln.startswith(s)) \
                    or (s == 'repeat while' and ln.startswith('repeat while')):
                return True
        return False

    def pseq(stops):
        nonlocal pos
        seq = []
        while pos < len(lines) and not at_stop(lines[pos], stops):
            ln = lines[pos]
            m = _EV.match(ln)
            if m:
                seq.append(('ev', m.group(1).strip()))
                pos += 1
            elif ln in ('detach', 'kill'):
                seq.append(('detach',))
                pos += 1
            elif ln == 'break':
                seq.append(('break',))
                pos += 1
            elif ln == 'repeat':
                pos += 1
                body = pseq({'repeat while'})
                if pos >= len(lines):
                    raise ParseError("unclosed repeat")
                pos += 1
                seq.append(('loop', tuple(body)))
            elif ln in ('fork', 'split'):
                kind = 'and' if ln == 'fork' else 'or'
                again, end = ln + ' again', 'end ' + ln
                pos += 1
                brs = [pseq({again, end})]
                while pos < len(lines) and lines[pos] == again:
                    pos += 1
                    brs.append(pseq({again, end}))
                if pos >= len(lines) or lines[pos] != end:
                    raise ParseError("unclosed " + ln)
                pos += 1
                seq.append((kind, tuple(tuple(b) for b in brs)))
            elif ln.startswith('switch'):
                pos += 1
                brs = []
                while pos < len(lines) and lines[pos].startswith('case'):
                    pos += 1
                    brs.append(pseq({'case (', 'endswitch'}))
                if pos >= len(lines) or lines[pos] != 'endswitch':
                    raise ParseError("unclosed switch")
                pos += 1
                seq.append(('xor', tuple(tuple(b) for b in brs)))
            elif ln.startswith('if '):
                stops2 = {'else', 'else (', 'elseif (', 'endif'}
                pos += 1
                brs = [pseq(stops2)]
                while pos < len(lines) and lines[pos].startswith('else'):
                    pos += 1
                    brs.append(pseq(stops2))
                if pos >= len(lines) or lines[pos] != 'endif':
                    raise ParseError("unclosed if")
                pos += 1
                seq.append(('xor', tuple(tuple(b) for b in brs)))
            else:
                raise ParseError("unexpected line: " + ln)
        return seq
    out = tuple(pseq(set()))
    if pos != len(lines):
        raise ParseError("trailing: " + lines[pos])
    return out


# --------------------------------------------------------------------------
# strict grammar of the emitted dialect (C05)
# --------------------------------------------------------------------------
class Bad(Exception):
    pass


PLACEHOLDERS = ("|||START|||", "|||END|||", "|||DUMMY|||", "DUMMY_BREAK",
                "DUMMY")
_LOOPNAME = re.compile(r'LOOP_\d+')


def strict_parse(text, allow_no_group=False, input_types=()):
    """returns (ast, info) or raises Bad(reason)"""
    # blank lines, trailing blanks and ' comments are legal PlantUML and carry
    # no structure
    lines = [ln.rstrip() for ln in text.split("\n")]
    lines = [ln for ln in lines
             if ln.strip() and not ln.strip().startswith("'")]
    if len(lines) < 6:
        raise Bad("frame: too short")
    if lines[0].strip() != "@startuml" or lines[-1].strip() != "@enduml":
        raise Bad("frame: @startuml/@enduml")
    m = re.fullmatch(r'\s*partition\s+"(.*)"\s*\{', lines[1])
    if not m:
        raise Bad("frame: partition")
    g = re.fullmatch(r'\s*group\s+"(.*)"', lines[2])
    if not g:
        raise Bad("frame: group")
    if m.group(1) != g.group(1):
        raise Bad("frame: partition/group names differ")
    if lines[-3].strip() != "end group" or lines[-2].strip() != "}":
        raise Bad("frame: tail")
    body = [ln.strip() for ln in lines[3:-3]]
    pos = 0
    info = {"events": [], "name": m.group(1)}

    def seq(stops, in_loop, what):
        nonlocal pos
        out = []
        while pos < len(body) and body[pos] not in stops:
            ln = body[pos]
            if out and out[-1][0] in ('break', 'detach'):
                raise Bad(f"statement after {out[-1][0]}: {ln}")
            mm = re.fullmatch(r':(.+);', ln)
            if mm:
                nm = mm.group(1)
                out.append(('ev', nm))
                info["events"].append(nm)
                pos += 1
            elif ln == 'detach':
                out.append(('detach',))
                pos += 1
            elif ln == 'break':
                if not in_loop:
                    raise Bad("break outside repeat")
                if what == 'repeat':
                    # a break directly in a repeat body is not at the end of
                    # a branch: it would make the loop's tail unreachable
                    raise Bad("break directly in a repeat body")
                out.append(('break',))
                pos += 1
            elif ln == 'repeat':
                pos += 1
                b = seq({'repeat while'}, True, 'repeat')
                if pos >= len(body):
                    raise Bad("unclosed repeat")
                pos += 1
                if not b:
                    raise Bad("empty repeat body")
                out.append(('loop', tuple(b)))
            elif ln in ('fork', 'split'):
                again, end = ln + ' again', 'end ' + ln
                pos += 1
                brs = [seq({again, end}, in_loop, ln)]
                while pos < len(body) and body[pos] == again:
                    pos += 1
                    brs.append(seq({again, end}, in_loop, ln))
                if pos >= len(body) or body[pos] != end:
                    raise Bad(f"unclosed {ln}")
                pos += 1
                if len(brs) < 2:
                    raise Bad(f"{ln} with one branch")
                if any(not b for b in brs):
                    raise Bad(f"{ln} with empty branch")
                out.append(('and' if ln == 'fork' else 'or',
                            tuple(tuple(b) for b in brs)))
            elif ln == 'switch (XOR)':
                pos += 1
                brs = []
                if pos >= len(body) or body[pos] != 'case ("")':
                    raise Bad("switch without case")
                while pos < len(body) and body[pos] == 'case ("")':
                    pos += 1
                    brs.append(seq({'case ("")', 'endswitch'}, in_loop,
                                   'switch'))
                if pos >= len(body) or body[pos] != 'endswitch':
                    raise Bad("unclosed switch")
                pos += 1
                if len(brs) < 2:
                    raise Bad("switch with one case")
                if any(not b for b in brs):
                    raise Bad("switch with empty case")
                out.append(('xor', tuple(tuple(b) for b in brs)))
            else:
                raise Bad(f"unexpected line in {what}: {ln}")
        return out
    ast = tuple(seq(set(), False, 'top'))
    if pos != len(body):
        raise Bad(f"unbalanced: stray '{body[pos]}'")
    for nm in info["events"]:
        # a name that is an event type of the input is not a placeholder,
        # whatever it looks like
        if nm in input_types:
            continue
        if any(p in nm for p in PLACEHOLDERS) or _LOOPNAME.fullmatch(nm):
            raise Bad(f"placeholder leaked: {nm}")
    return ast, info
