"""Evidence writer (schema: /root/.vp/EVIDENCE.schema.json) with a built-in
structural validation (jsonschema is not importable from /venv)."""
import json
import os
import subprocess

VERIF = os.path.dirname(os.path.dirname(os.path.abspath(__file__)))
SCHEMA = "/root/.vp/EVIDENCE.schema.json"


class EvidenceError(Exception):
    pass


def _validate(ev):
    for k in ("property_id", "tier", "seed", "level", "coverage", "wall_s"):
        if k not in ev:
            raise EvidenceError("missing " + k)
    cov = ev["coverage"]
    lvl = ev["level"]
    if lvl == "model_checking":
        for k in ("states", "transitions", "traces_validated_against_impl",
                  "samples"):
            if k not in cov:
                raise EvidenceError("model_checking evidence lacks " + k)
        if cov["states"] < 1 or cov["transitions"] < 1 or not cov["samples"]:
            raise EvidenceError("empty model_checking evidence")
    for k in ("evaluations", "distinct_nontrivial", "rule", "samples"):
        if k not in cov:
            raise EvidenceError("evidence lacks " + k)
    if cov["evaluations"] < 1 or cov["distinct_nontrivial"] < 2 \
            or not cov["samples"]:
        raise EvidenceError("vacuous evidence")


def write(prop, tier, seed, level, coverage, wall_s, violations, assumptions):
    ev = {"property_id": prop, "tier": tier, "seed": int(seed), "level": level,
          "coverage": coverage, "assumptions": assumptions,
          "wall_s": round(wall_s, 2), "violations": int(violations)}
    _validate(ev)
    # only the mutant driver redirects evidence (tools/mutant.sh)
    d = os.environ.get("VERIF_EVIDENCE_DIR") or os.path.join(VERIF, "evidence")
    os.makedirs(d, exist_ok=True)
    path = os.path.join(d, prop + ".json")
    tmp = path + ".tmp"
    with open(tmp, "w") as f:
        json.dump(ev, f, indent=1, sort_keys=False, default=str)
        f.write("\n")
    os.replace(tmp, path)
    return path


def schema_validate(path):
    """full JSON-schema validation through the tooling venv, when present"""
    code = ("import json,sys,jsonschema;"
            "jsonschema.validate(json.load(open(sys.argv[1])),"
            "json.load(open(sys.argv[2])))")
    try:
        r = subprocess.run(["python3-vt", "-c", code, path, SCHEMA],
                           capture_output=True, text=True, timeout=60)
    except (OSError, subprocess.TimeoutExpired):
        return None
    return r.returncode == 0, r.stderr[-2000:]
