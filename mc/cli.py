"""./run_check <ID> [--tier quick|thorough] | replay <file> | selftest"""
import argparse
import importlib
import json
import os
import sys
import time

from . import evidence, findings, pool

VERIF = os.path.dirname(os.path.dirname(os.path.abspath(__file__)))
REPO = os.environ.get("VERIF_REPO", "/repo")


def repo_head():
    import subprocess
    try:
        return subprocess.run(["git", "-C", REPO, "rev-parse", "HEAD"],
                              capture_output=True, text=True).stdout.strip()
    except OSError:
        return "?"


def load_check(pid):
    return importlib.import_module("mc.checks." + pid.lower())


def run_check(pid, tier, seed):
    """scratch space of a run lives in one directory named after this
    process and is removed when the run ends, whatever happened to the
    workers; directories of runs whose process is gone are swept first"""
    import shutil
    import tempfile
    base = "/dev/shm" if os.path.isdir("/dev/shm") else tempfile.gettempdir()
    for d in os.listdir(base):
        if d.startswith("verif_run_"):
            try:
                os.kill(int(d.split("_")[2]), 0)
            except (ProcessLookupError, ValueError, IndexError):
                shutil.rmtree(os.path.join(base, d), ignore_errors=True)
            except PermissionError:
                pass
    scratch = tempfile.mkdtemp(prefix=f"verif_run_{os.getpid()}_", dir=base)
    os.environ["VERIF_SCRATCH"] = scratch
    try:
        return _run_check(pid, tier, seed)
    finally:
        shutil.rmtree(scratch, ignore_errors=True)


def _run_check(pid, tier, seed):
    chk = load_check(pid)
    ctx = {"repo": REPO, "seed": seed, "tier": tier}
    t0 = time.time()
    def progress(done, total):
        print(f"[{pid}] {done}/{total} tasks  {time.time()-t0:.0f}s",
              file=sys.stderr, flush=True)
    if hasattr(chk, "explore"):
        # checks with their own search loop (BFS over histories)
        try:
            out = chk.explore(tier, ctx, progress)
        except pool.HarnessError as e:
            print(f"HARNESS-ERROR {pid}: {e}", flush=True)
            return 2
        tasks = out.get("tasks", [])
    else:
        tasks = chk.build(tier, ctx)
        only = os.environ.get("VERIF_ONLY")
        if only:
            # maintenance (partial sweeps for tools/gen_known_findings.py):
            # restrict to tasks of one definition family
            tasks = [t for t in tasks if t.get("name") in only.split(",")]
        order = list(range(len(tasks)))
        if seed:
            # VERIF_SEED only rotates the dispatch order (no random choices)
            k = seed % max(1, len(order))
            order = order[k:] + order[:k]
        rtasks = [tasks[i] for i in order]
        rres = pool.run_tasks(chk.HANDLER, rtasks,
                              timeout=getattr(chk, "TIMEOUT", 120.0),
                              seed_of=getattr(chk, "seed_of", None),
                              progress=progress)
        results = [None] * len(tasks)
        for pos, i in enumerate(order):
            results[i] = rres[pos]
        # a watchdog timeout (or a worker lost under load) is only believed
        # after it reproduces on an otherwise idle re-run with a longer limit
        again = [i for i, r in enumerate(results)
                 if isinstance(r, dict) and r.get("_error") in ("timeout",
                                                                "crash")]
        if again and len(again) <= 64:
            print(f"[{pid}] re-running {len(again)} timed-out task(s) alone",
                  file=sys.stderr, flush=True)
            r2 = pool.run_tasks(chk.HANDLER, [tasks[i] for i in again],
                                timeout=3 * getattr(chk, "TIMEOUT", 120.0),
                                seed_of=getattr(chk, "seed_of", None),
                                nworkers=2)
            for i, r in zip(again, r2):
                results[i] = r
        # harness errors
        herr = [(t, r) for t, r in zip(tasks, results)
                if r is None or (isinstance(r, dict) and r.get("_error")
                                 and not chk_accepts_error(chk, r))]
        if herr:
            for t, r in herr[:5]:
                print(f"HARNESS-ERROR {pid}: {json.dumps(r)[:1500]} task="
                      f"{json.dumps(t, default=str)[:300]}", file=sys.stderr)
            print(f"HARNESS-ERROR {pid}: {len(herr)} task(s) failed in the "
                  "harness; no verdict", flush=True)
            return 2
        out = chk.collect(tier, tasks, results, ctx)
    if out.get("harness_error") and not os.environ.get("VERIF_ONLY"):
        print(f"HARNESS-ERROR {pid}: {out['harness_error']}", flush=True)
        return 2
    violations = out["violations"]
    dump = os.environ.get("VERIF_DUMP")
    if dump:
        with open(dump, "w") as f:
            for v in violations:
                f.write(json.dumps({"key": v["key"], "what": v["what"],
                                    "input": v.get("input"),
                                    "observed": v.get("observed")},
                                   default=str) + "\n")
    unknown, matched = findings.classify(pid, violations)
    cov = out["coverage"]
    cov["known_findings_matched"] = {k: len(v[1]) for k, v in matched.items()}
    cov["repo_head"] = repo_head()
    wall = time.time() - t0
    evidence.write(pid, tier, seed, chk.LEVEL, cov, wall, len(unknown),
                   out.get("assumptions", []))
    for fid, (f, vs) in sorted(matched.items()):
        print(f"KNOWN-FINDING: property={pid} {fid} {f['what_fails']} "
              f"({len(vs)} inputs in this scope)")
    rc = 0
    if unknown:
        rc = 1
        rdir = os.path.join(os.environ.get("VERIF_REPLAY_DIR") or
                            os.path.join(VERIF, "replays"), pid)
        os.makedirs(rdir, exist_ok=True)
        seen = set()
        for v in unknown:
            if v["key"] in seen:
                continue
            seen.add(v["key"])
            path = os.path.join(rdir, v["key"][:16] + ".json")
            rec = {"property": pid, "tier": tier, "repo_head": cov["repo_head"],
                   "key": v["key"], "what": v["what"],
                   "input": v.get("input"), "observed": v.get("observed"),
                   "expected": v.get("expected")}
            with open(path, "w") as f:
                json.dump(rec, f, indent=1, default=str)
            if len(seen) <= 40:
                print(f"VIOLATION property={pid} replay={path}  # "
                      f"{v['what'][:200]}")
        if len(seen) > 40:
            print(f"... {len(seen)-40} further violations "
                  f"(replay files written under {rdir})")
    print(f"[{pid}] tier={tier} tasks={len(tasks)} "
          f"violations={len(unknown)} known={sum(len(v[1]) for v in matched.values())} "
          f"wall={wall:.1f}s", flush=True)
    return rc


def chk_accepts_error(chk, r):
    return r.get("_error") in getattr(chk, "ACCEPTED_ERRORS", ())


def replay(path):
    with open(path) as f:
        rec = json.load(f)
    chk = load_check(rec["property"])
    pool.worker_setup()
    ctx = {"repo": REPO, "seed": 0, "tier": rec.get("tier", "quick")}
    verdicts = []
    for _ in range(2):
        verdicts.append(chk.replay(rec, ctx))
    if verdicts[0][0] != verdicts[1][0]:
        print("HARNESS-ERROR replay is not deterministic")
        return 2
    viol, msg = verdicts[0]
    if viol:
        print(f"VIOLATION property={rec['property']} replay={path}  # {msg}")
        return 1
    print(f"OK property={rec['property']} replay={path}: {msg}")
    return 0


def main(argv=None):
    ap = argparse.ArgumentParser()
    ap.add_argument("cmd")
    ap.add_argument("arg", nargs="?")
    ap.add_argument("--tier", default=os.environ.get("VERIF_TIER", "quick"),
                    choices=["quick", "thorough"])
    a = ap.parse_args(argv)
    seed = int(os.environ.get("VERIF_SEED", "0") or 0)
    if a.cmd == "selftest":
        from . import selftest
        return selftest.main()
    if a.cmd == "replay":
        return replay(a.arg)
    if a.cmd == "check":
        return run_check(a.arg.upper(), a.tier, seed)
    return run_check(a.cmd.upper(), a.tier, seed)


if __name__ == "__main__":
    sys.exit(main())
