"""Enumerators and reference models for the otel2pv side."""
import itertools

M = 60 * 10 ** 9   # one minute in ns


def shapes(max_nodes, labels="ab"):
    """labelled rooted ordered trees (sibling listing order significant) with
    <= max_nodes nodes; tree = (label, child, child, ...)"""
    memo = {}

    def trees(n):
        if n in memo:
            return memo[n]
        out = []
        for lab in labels:
            if n == 1:
                out.append((lab,))
            else:
                for forest in forests(n - 1):
                    out.append((lab,) + forest)
        memo[n] = out
        return out
    fmemo = {}

    def forests(n):
        """ordered non-empty forests with n nodes in total"""
        if n in fmemo:
            return fmemo[n]
        out = []
        for first in range(1, n + 1):
            for t in trees(first):
                if first == n:
                    out.append((t,))
                else:
                    for rest in forests(n - first):
                        out.append((t,) + rest)
        fmemo[n] = out
        return out
    res = []
    for n in range(1, max_nodes + 1):
        res.extend(trees(n))
    return res


def shape_canon(t):
    """AHU canonical form: sibling order ignored"""
    return (t[0], tuple(sorted(shape_canon(c) for c in t[1:])))


def spans_of(tree, jid, name, t0=1, app="a"):
    """span dicts of one trace, parents listed before children"""
    res = []
    cnt = itertools.count()

    def rec(t, parent):
        i = f"{jid}_{next(cnt)}"
        k = len(res)
        res.append(dict(job_name=name, job_id=jid, event_type=t[0],
                        event_id=i, start_timestamp=t0 + k,
                        end_timestamp=t0 + k + 1, application_name=app,
                        parent_event_id=parent))
        for c in t[1:]:
            rec(c, i)
    rec(tree, None)
    return res


def ingestion_orders(traces):
    return {
        "seq": [s for t in traces for s in t],
        "rev": [s for t in reversed(traces) for s in t],
        "childfirst": [s for t in traces for s in reversed(t)],
        "rr": [s for tup in itertools.zip_longest(*traces) for s in tup if s],
    }


# --------------------------------------------------------------------------
# reference sequencer (docs/user/sequencer_HOWTO.md)
# --------------------------------------------------------------------------
def ref_sequence(spans, async_flag=False, group_map=None, rename_map=None):
    """spans: list of dicts (event_id, event_type, parent_event_id,
    start_timestamp, end_timestamp, ...).  group_map: parent type ->
    {child type: group}.  rename_map: type -> {"mapped_event_type": str,
    "child_event_types": set}.  Returns {event_id: (type, frozenset(prev))}"""
    by_id = {s["event_id"]: dict(s) for s in spans}
    kids = {}
    root = None
    for s in spans:
        if s["parent_event_id"] is None:
            root = s["event_id"]
        else:
            kids.setdefault(s["parent_event_id"], []).append(s["event_id"])
    # rename first (the pipeline renames before it sequences)
    if rename_map:
        for i, s in by_id.items():
            info = rename_map.get(s["event_type"])
            if info:
                ctypes = {by_id[c]["event_type_orig"]
                          if "event_type_orig" in by_id[c]
                          else by_id[c]["event_type"] for c in kids.get(i, [])}
                if ctypes & set(info["child_event_types"]):
                    s["event_type_orig"] = s["event_type"]
                    s["new_type"] = info["mapped_event_type"]
        for s in by_id.values():
            if "new_type" in s:
                s["event_type"] = s["new_type"]
    prev = {}

    def groups_of(i):
        ch = sorted(kids.get(i, []), key=lambda c: by_id[c]["start_timestamp"])
        gm = (group_map or {}).get(by_id[i]["event_type"])
        if gm:
            groups = {}
            out = []
            for c in ch:
                g = gm.get(by_id[c]["event_type"])
                if g is None:
                    out.append([c])
                else:
                    if g not in groups:
                        groups[g] = []
                        out.append(groups[g])
                    groups[g].append(c)
            out.sort(key=lambda grp: min(by_id[c]["start_timestamp"]
                                         for c in grp))
            base = out
        else:
            base = [[c] for c in ch]
        if async_flag:
            merged = []
            cur_end = None
            for grp in base:
                gs = min(by_id[c]["start_timestamp"] for c in grp)
                ge = max(by_id[c]["end_timestamp"] for c in grp)
                if merged and gs < cur_end:
                    merged[-1].extend(grp)
                    cur_end = max(cur_end, ge)
                else:
                    merged.append(list(grp))
                    cur_end = ge
            base = merged
        return base

    def seq(i, inherited):
        """returns nothing; sets prev for i and its descendants"""
        last = inherited
        for grp in groups_of(i):
            for c in grp:
                seq(c, last)
            last = frozenset(grp)
        prev[i] = frozenset(last)
    seq(root, frozenset())
    return {i: (by_id[i]["event_type"], prev[i]) for i in by_id}
