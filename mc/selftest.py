"""setup / self-test: nothing is compiled; verify that the seams work.

1. imports through the janus stand-in;
2. printer/parser round trip and language preservation on F_5 + corpus;
3. shim conformance on hand-written PV jobs (behaviour asserted upstream in
   tests/tel2puml/pv_to_puml/test_data_ingestion.py);
4. determinism: the same (definition, presentation, pi, seed) in two separate
   worker processes gives byte-identical text; a different pi really changes
   an observed iteration order (the seam steers something)."""
import sys

from . import dsl, fragment, semantics, pool
from .cli import REPO


def handle(task):
    from .checks import pvcommon
    from . import impl_pv
    impl_pv.imports()
    import tel2puml.loop_detection.detect_loops as dl
    orders = []
    orig = getattr(dl, "_verif_orig_scc", None) or dl.strongly_connected_components
    dl._verif_orig_scc = orig

    def spy(g):
        res = list(orig(g))
        orders.append([[e.event_type for e in s] for s in res])
        return iter(res)
    dl.strongly_connected_components = spy
    out = []
    for d in task["defs"]:
        orders.clear()
        jobs, res, st = pvcommon.run_def(dsl.to_tuple(d), 2, None, task["pi"])
        out.append({"text": res.get("text"), "status": res["status"],
                    "exc": res.get("exc"), "orders": list(orders)})
    dl.strongly_connected_components = orig
    return {"out": out}


def main():
    pool.worker_setup()
    ok = True
    # 2. round trip
    co = fragment.corpus(REPO)
    assert len(co) == 63, len(co)
    n = 0
    for d in fragment.F(5) + [a for _, a in co]:
        txt = dsl.print_puml(d)
        assert dsl.parse_puml(txt) == d, dsl.show(d)
        dsl.strict_parse(txt)
        jobs = semantics.executions(d, 2)
        for j in jobs:
            assert semantics.accepts(d, j), (dsl.show(d), j)
        n += 1
    print(f"selftest: printer/parser/semantics round trip on {n} definitions")
    # 3. shim conformance
    from . import impl_pv
    impl_pv.imports()
    from tel2puml.pv_to_puml.data_ingestion import (
        get_graph_solutions_from_clustered_events)
    pv = [[
        dict(jobId="j", jobName="J", eventType="A", eventId="1",
             timestamp="t", applicationName="a"),
        dict(jobId="j", jobName="J", eventType="B", eventId="2",
             timestamp="t", applicationName="a", previousEventIds=["1"]),
        dict(jobId="j", jobName="J", eventType="C", eventId="3",
             timestamp="t", applicationName="a", previousEventIds="1"),
    ]]
    gs = list(get_graph_solutions_from_clustered_events(pv, True))[0]
    evs = {e.meta_data["EventType"]: e for e in gs.events.values()}
    assert [p.meta_data["EventType"] for p in evs["A"].post_events] == ["B", "C"]
    assert [p.meta_data["EventType"] for p in evs["A"].previous_events] == \
        ["|||START|||"]
    assert [p.meta_data["EventType"] for p in evs["|||START|||"].post_events] \
        == ["A"]
    print("selftest: janus stand-in conformance ok")
    # 4. determinism in two processes
    defs = [dsl.to_list(d) for d in fragment.F(5)[::9]]
    tasks = [{"defs": defs, "pi": "id"}, {"defs": defs, "pi": "id"},
             {"defs": defs, "pi": "rev"}]
    res = pool.run_tasks("mc.selftest:handle", tasks, timeout=600, nworkers=3)
    for r in res:
        if r.get("_error"):
            print("selftest: worker error", r)
            return 2
    a, b, c = [r["out"] for r in res]
    if [x["text"] for x in a] != [x["text"] for x in b] or \
            [x["orders"] for x in a] != [x["orders"] for x in b]:
        print("selftest: NONDETERMINISM between two identical runs")
        return 2
    steered = sum(1 for x, y in zip(a, c) if x["orders"] != y["orders"])
    if steered == 0:
        print("selftest: hash-rank seam does not steer any iteration order")
        return 2
    print(f"selftest: {len(defs)} definitions byte-identical across two "
          f"processes; pi changed the SCC member order of {steered}")
    return 0 if ok else 2


if __name__ == "__main__":
    sys.exit(main())
