"""Enumerator of fragment F (DESIGN 7.0) by number of events, and corpus loader."""
import functools
import glob
import itertools
import os

from . import dsl

EV = ('ev',)


def compositions(n, k):
    if k == 1:
        if n >= 1:
            yield (n,)
        return
    for a in range(1, n - k + 2):
        for rest in compositions(n - a, k - 1):
            yield (a,) + rest


@functools.lru_cache(None)
def seqs(n, fd, ld, top, in_loop_body, nested_loop, lead_block=False,
         bunch=False):
    """shapes of sequences with exactly n events.
    fd/ld: remaining fork / loop nesting depth; top: top-level sequence
    (detach allowed in its AND/OR forks); in_loop_body: sequence is directly
    a loop body (XOR may carry break branches); nested_loop: that loop is
    itself nested (break branches are single events)."""
    res = []

    def build(remaining, prefix, last_was_block):
        if remaining == 0:
            res.append(tuple(prefix))
            return
        build(remaining - 1, prefix + [EV], False)
        if prefix and not last_was_block:
            for size in range(1, remaining + 1):
                for blk in blocks(size, fd, ld, top, in_loop_body,
                                  nested_loop, bunch):
                    build(remaining - size, prefix + [blk], True)
    build(n, [], True)
    if in_loop_body and bunch == "leadloop" and ld > 0:
        # the body of a loop starts with an inner loop: both loops share
        # their start event ("continue"-style back edges)
        for size in range(1, n):
            for inner in seqs(size, fd, ld - 1, False, True, True, False,
                              bunch):
                build(n - size, [('loop', inner)], True)
    if lead_block and bunch is True:
        # "bunched" logic: the branch starts with a fork block
        for size in range(2, n + 1):
            for blk in blocks(size, fd, 0, False, False, False, bunch):
                if blk[0] == 'loop':
                    continue
                build(n - size, [blk], True)
    return tuple(res)


@functools.lru_cache(None)
def blocks(n, fd, ld, top, in_loop_body, nested_loop, bunch=False):
    res = []
    if fd > 0:
        for k in (2, 3):
            if n < k:
                continue
            for comp in compositions(n, k):
                opts = [seqs(c, fd - 1, ld, False, False, False, bunch, bunch)
                        for c in comp]
                for brs in itertools.product(*opts):
                    if list(brs) != sorted(brs, key=repr):
                        continue
                    for kind in ('and', 'or', 'xor'):
                        res.append((kind, tuple(brs)))
                        if top and kind in ('and', 'or'):
                            for r in range(1, k + 1):
                                for sub in itertools.combinations(range(k), r):
                                    b2 = tuple(
                                        b + (('detach',),) if i in sub else b
                                        for i, b in enumerate(brs))
                                    res.append((kind, b2))
                    if in_loop_body:
                        for r in range(1, k):
                            for sub in itertools.combinations(range(k), r):
                                ok = all(
                                    all(x == EV for x in brs[i]) and
                                    (len(brs[i]) == 1 or not nested_loop)
                                    for i in sub)
                                if ok:
                                    b2 = tuple(
                                        b + (('break',),) if i in sub else b
                                        for i, b in enumerate(brs))
                                    res.append(('xor', b2))
    if ld > 0 and n >= 1:
        for body in seqs(n, fd, ld - 1, False, True, (not top), False, bunch):
            res.append(('loop', body))
    return tuple(res)


def name(shape):
    cnt = itertools.count()

    def nm(s):
        out = []
        for it in s:
            if it[0] == 'ev':
                out.append(('ev', chr(65 + next(cnt))))
            elif it[0] in ('detach', 'break'):
                out.append(it)
            elif it[0] == 'loop':
                out.append(('loop', nm(it[1])))
            else:
                out.append((it[0], tuple(nm(b) for b in it[1])))
        return tuple(out)
    return nm(shape)


def F_exact(n, fork_depth=3, loop_depth=2):
    return [name(s) for s in seqs(n, fork_depth, loop_depth, True, False,
                                  False)]


def F(nmax, fork_depth=3, loop_depth=2, nmin=1):
    out = []
    for n in range(nmin, nmax + 1):
        out.extend(F_exact(n, fork_depth, loop_depth))
    return out


def F_bunched(nmax, nmin=1):
    """extension beyond F: fork branches may start with a fork block
    ("bunched" logic, as in the corpus' bunched_* cases).  Only definitions
    that are not already in F are returned."""
    out = []
    for n in range(nmin, nmax + 1):
        base = set(seqs(n, 3, 2, True, False, False))
        for s in seqs(n, 3, 2, True, False, False, False, True):
            if s not in base:
                out.append(name(s))
    return out


def F_leadloop(nmax):
    """extension beyond F: a loop body may begin with an inner loop (the two
    loops share their start event)"""
    out = []
    for n in range(1, nmax + 1):
        base = set(seqs(n, 3, 2, True, False, False))
        for s in seqs(n, 3, 2, True, False, False, False, "leadloop"):
            if s not in base:
                out.append(name(s))
    return out


def F_bunched_new(nmax):
    """bunched definitions whose job set differs from every definition of
    F_nmax and from each other (the tool only ever sees the job set)"""
    from . import semantics
    seen = set()
    for d in F(nmax):
        seen.add(semantics.language(d, 2))
    new = []
    for d in F_bunched(nmax):
        lang = semantics.language(d, 2)
        if lang not in seen:
            seen.add(lang)
            new.append(d)
    return new


def staged_merge_family():
    """a branch that merges with one sibling before it merges with the rest
    (three-way merges resolved in stages), with and without a loop on the
    inner branch: A op1[ op2[B L|C] E | D ] F"""
    out = []
    E_ = lambda n: ('ev', n)  # noqa: E731
    for op1 in ('and', 'or', 'xor'):
        for op2 in ('and', 'or', 'xor'):
            for inner in ((E_('B'),), (E_('B'), ('loop', (E_('X'),))),
                          (E_('B'), ('loop', (E_('X'), E_('Y'))))):
                out.append((E_('A'),
                            (op1, (((op2, (inner, (E_('C'),))), E_('E')),
                                   (E_('D'),))),
                            E_('F')))
            # the loop after the inner merge
            out.append((E_('A'),
                        (op1, (((op2, ((E_('B'),), (E_('C'),))), E_('E'),
                                ('loop', (E_('X'),))), (E_('D'),))),
                        E_('F')))
    return out


def repeated_event_family():
    """the same event type on parallel branches (counts > 1; outside F, used
    for presentation-independence only)"""
    E_ = lambda n: ('ev', n)  # noqa: E731
    out = []
    for op in ('and', 'or'):
        out.append((E_('A'), (op, ((E_('B'),), (E_('B'),))), E_('C')))
        out.append((E_('A'), (op, ((E_('B'),), (E_('B'),), (E_('C'),))),
                    E_('D')))
        out.append((E_('A'), (op, ((E_('B'),), (E_('C'),), (E_('C'),))),
                    E_('D')))
        out.append((E_('S'), E_('A'),
                    (op, ((E_('B'),), (E_('B'),), (E_('C'), E_('E')))),
                    E_('D')))
    return out


def _adjacent(seq):
    prev = None
    for it in seq:
        if it[0] == 'ev' and prev == 'ev':
            return True
        prev = it[0]
        if it[0] == 'loop' and _adjacent(it[1]):
            return True
        if it[0] in ('and', 'or', 'xor') and any(_adjacent(b) for b in it[1]):
            return True
    return False


def _nblocks(seq):
    n = 0
    for it in seq:
        if it[0] == 'loop':
            n += 1 + _nblocks(it[1])
        elif it[0] in ('and', 'or', 'xor'):
            n += 1 + sum(_nblocks(b) for b in it[1])
    return n


def _depth(seq):
    d = 0
    for it in seq:
        if it[0] == 'loop':
            d = max(d, 1 + _depth(it[1]))
        elif it[0] in ('and', 'or', 'xor'):
            d = max(d, 1 + max(_depth(b) for b in it[1]))
    return d


def _nbreaks(seq):
    n = 0
    for it in seq:
        if it[0] == 'break':
            n += 1
        elif it[0] == 'loop':
            n += _nbreaks(it[1])
        elif it[0] in ('and', 'or', 'xor'):
            n += sum(_nbreaks(b) for b in it[1])
    return n


def skeletons(n, blocks=3, chain=False, min_breaks=0):
    """definitions of F with exactly n events and `blocks` blocks in which no
    two events are adjacent (structure with minimal event padding): deeper
    block structure than F_7 reaches, at a fraction of the size of F_n.
    chain=True keeps only those whose blocks are nested in one chain."""
    out = []
    for s in seqs(n, 3, 2, True, False, False):
        if _adjacent(s) or _nblocks(s) != blocks:
            continue
        if chain and _depth(s) != blocks:
            continue
        if _nbreaks(s) < min_breaks:
            continue
        out.append(name(s))
    return out


def branch_count_family(full=False):
    """alternatives after one event that differ in how often a type occurs:
    S X xor[and[..]|and[..]|and[..]] Z with multisets over {A,B,C} (counts
    <= 2): pairs with equal support and different counts, each with every
    third multiset (quick) / all triples (full)"""
    import itertools as it
    E_ = lambda n: ('ev', n)  # noqa: E731
    ms = []
    for size in (2, 3):
        for c in it.combinations_with_replacement("ABC", size):
            if max(c.count(x) for x in c) <= 2 and len(set(c)) >= 2:
                ms.append(c)
    ms += [("A", "A"), ("B", "B")]
    ms = sorted(set(ms))

    def mk(alts):
        brs = []
        for a in alts:
            brs.append((('and', tuple((E_(x),) for x in a)),))
        return (E_('S'), E_('X'), ('xor', tuple(brs)), E_('Z'))
    out = []
    if full:
        for tr in it.combinations(ms, 3):
            out.append(mk(tr))
    else:
        for a, b in it.combinations(ms, 2):
            if set(a) == set(b):
                for c in ms:
                    if c not in (a, b) and set(c) != set(a):
                        out.append(mk((a, b, c)))
    for a, b in it.combinations(ms, 2):
        out.append(mk((a, b)))
    return out


def loop_on_break_path_family(nmax):
    """beyond F: the exit path of a loop begins with a loop of its own (the
    first event of a break branch is wrapped in a self loop)"""
    out = []

    def rewrite(seq):
        """yield variants of seq with exactly one break branch rewritten"""
        for i, it in enumerate(seq):
            if it[0] == 'loop':
                for v in rewrite(it[1]):
                    yield seq[:i] + (('loop', v),) + seq[i + 1:]
            elif it[0] in ('and', 'or', 'xor'):
                for bi, b in enumerate(it[1]):
                    if it[0] == 'xor' and b and b[-1] == ('break',) \
                            and b[0][0] == 'ev':
                        nb = (('loop', (b[0],)),) + b[1:]
                        yield seq[:i] + ((it[0], it[1][:bi] + (nb,) +
                                          it[1][bi + 1:]),) + seq[i + 1:]
                    for v in rewrite(b):
                        yield seq[:i] + ((it[0], it[1][:bi] + (v,) +
                                          it[1][bi + 1:]),) + seq[i + 1:]
    for d in F(nmax):
        if _nbreaks(d) >= 1:
            out.extend(rewrite(d))
    return out


def kill_in_loop_family():
    """beyond F: branches that die inside a loop body (kill paths in loops,
    as in the corpus kill_in_loop / paths_should_kill_in_loop), also below a
    bunched XOR of two forks"""
    E_ = lambda n: ('ev', n)  # noqa: E731
    D = ('detach',)
    out = []
    for op in ('and', 'or'):
        # loop[A op[B|C detach] D] E  and three-branch variants
        out.append((E_('S'), ('loop', (E_('A'), (op, ((E_('B'),), (E_('C'), D))),
                                       E_('D'))), E_('E')))
        out.append((E_('S'), ('loop', (E_('A'), (op, ((E_('B'),), (E_('C'), D),
                                                      (E_('F'), D))),
                                       E_('D'))), E_('E')))
        out.append((E_('S'), ('loop', (E_('A'), (op, ((E_('B'),), (E_('C'),),
                                                      (E_('F'), D))),
                                       E_('D'))), E_('E')))
        for op2 in ('and', 'or'):
            # XOR of two forks in the loop body, one with a dying branch
            out.append((E_('S'), ('loop', (
                E_('A'), E_('B'),
                ('xor', (((op, ((E_('C'),), (E_('X'), D))),),
                         ((op2, ((E_('D'),), (E_('F'),))), E_('G')))),
                E_('H'))), E_('E')))
            out.append((E_('S'), ('loop', (
                E_('A'),
                ('xor', (((op, ((E_('C'),), (E_('X'), D))),),
                         ((op2, ((E_('D'),), (E_('F'),))),))),
                E_('H'))), E_('E')))
    return out


def F_plus_extra(nmax):
    """multi-start variants: leading event removed when a fork follows it.
    (a definition of F with n+1 events gives a variant with n events)"""
    out = []
    for d in F(nmax + 1):
        if len(d) >= 2 and d[0][0] == 'ev' and d[1][0] in ('and', 'or', 'xor'):
            shape = d[1:]
            out.append(rename(shape))
    return out


def rename(defn):
    cnt = itertools.count()

    def nm(s):
        out = []
        for it in s:
            if it[0] == 'ev':
                out.append(('ev', chr(65 + next(cnt))))
            elif it[0] in ('detach', 'break'):
                out.append(it)
            elif it[0] == 'loop':
                out.append(('loop', nm(it[1])))
            else:
                out.append((it[0], tuple(nm(b) for b in it[1])))
        return tuple(out)
    return nm(defn)


def has_loop(defn):
    return dsl.depth_has_loop(defn)


# --------------------------------------------------------------------------
# corpus
# --------------------------------------------------------------------------
def corpus(repo):
    """the 63 end-to-end definitions without branch counts.
    returns list of (relative name, ast)"""
    root = os.path.join(repo, 'end-to-end-pumls')
    files = sorted(glob.glob(os.path.join(root, '**', '*.puml'),
                             recursive=True))
    out = []
    for f in files:
        txt = open(f).read()
        if 'BCNT' in txt:
            continue
        if os.path.basename(f).startswith('multiple_same_event_AND'):
            continue
        out.append((os.path.relpath(f, root), dsl.parse_puml(txt)))
    return out


def corpus_multiple_same(repo):
    root = os.path.join(repo, 'end-to-end-pumls')
    files = sorted(glob.glob(os.path.join(
        root, '**', 'multiple_same_event_AND*.puml'), recursive=True))
    return [(os.path.relpath(f, root), dsl.parse_puml(open(f).read()))
            for f in files if 'BCNT' not in open(f).read()]


def stretch(defn, length):
    """every event of a definition replaced by a chain of `length` events
    (X -> X1 .. Xlength); the single event of a break branch is kept, so that
    the result is the same block structure with long sequences"""
    def seq(s, in_break):
        out = []
        for it in s:
            if it[0] == 'ev':
                if in_break:
                    out.append(it)
                else:
                    out += [('ev', f"{it[1]}{i}")
                            for i in range(1, length + 1)]
            elif it[0] in ('and', 'or', 'xor'):
                out.append((it[0], tuple(
                    seq(b, it[0] == 'xor' and b and b[-1] == ('break',))
                    for b in it[1])))
            elif it[0] == 'loop':
                out.append(('loop', seq(it[1], False)))
            else:
                out.append(it)
        return tuple(out)
    return seq(defn, False)


def stretched_family(nmax, length):
    """long-sequence versions of the small definitions: distances between
    fork, merge, loop start and loop end grow with `length` while the block
    structure stays that of F_nmax"""
    return [stretch(d, length) for d in F(nmax)
            if any(it[0] != 'ev' for it in d)]


def silent_break_family():
    """beyond F: a decision node in a loop body with a silent break (break
    branch without an event) next to evented breaks and continuing branches
    (polling loops: `error: log; break / done: break / else: wait`)"""
    E_ = lambda n: ('ev', n)  # noqa: E731
    B = ('break',)
    out = []
    for tail in ((E_('R'),), (E_('R'), E_('T'))):
        for pre in ((E_('A'),), (E_('A'), E_('B'))):
            bodies = [
                (('xor', ((B,), (E_('W'),))),),
                (('xor', ((E_('L'), B), (B,), (E_('W'),))),),
                (('xor', ((E_('L'), B), (E_('M'), B), (B,), (E_('W'),))),),
                (('xor', ((E_('L'), B), (B,), (E_('W'),), (E_('V'),))),),
                (('xor', ((E_('L'), B), (B,), (E_('W'), E_('V')))),),
                (('xor', ((E_('L'), B), (B,), (E_('W'),))), E_('Z')),
            ]
            for body in bodies:
                out.append((E_('S'), ('loop', pre + body)) + tail)
    # the same decision inside a nested loop
    out.append((E_('S'), ('loop', (E_('A'), ('loop', (
        E_('B'), ('xor', ((E_('L'), B), (B,), (E_('W'),))))), E_('C'))),
        E_('R')))
    return out


def sibling_breaks_family():
    """inside F but beyond its size bound: one loop body with two or three
    separate XORs that each have a break branch"""
    E_ = lambda n: ('ev', n)  # noqa: E731
    B = ('break',)

    def x(a, b, first):
        return ('xor', ((E_(b), B), (E_(a),))) if first else \
            ('xor', ((E_(a),), (E_(b), B)))
    out = []
    for tail in ((), (E_('Z'),)):
        for f1 in (False, True):
            for f2 in (False, True):
                body = (E_('F'), x('G', 'H', f1), E_('I'), x('K', 'L', f2))
                out.append((E_('A'), ('loop', body + (E_('M'),))) + tail)
                out.append((E_('A'), ('loop', body)) + tail)
        body3 = (E_('F'), x('G', 'H', False), E_('I'), x('K', 'L', False),
                 E_('M'), x('N', 'O', False), E_('P'))
        out.append((E_('A'), ('loop', body3)) + tail)
    return out


def wide_fork_family(widths=(4, 5, 6)):
    """beyond F (2-3 branches): forks with 4-6 branches, plain and with one
    two-event branch, at top level and inside a loop"""
    E_ = lambda n: ('ev', n)  # noqa: E731
    out = []
    names = "BCDEFGHIJ"
    for w in widths:
        for op in ('and', 'or', 'xor'):
            br = tuple((E_(names[i]),) for i in range(w))
            out.append((E_('A'), (op, br), E_('Z')))
            br2 = ((E_('B'), E_('Y')),) + br[1:]
            out.append((E_('A'), (op, br2), E_('Z')))
            if w <= 4 or op == 'xor':
                out.append((E_('A'), ('loop', (E_('S'), (op, br), E_('T'))),
                            E_('Z')))
    return out
