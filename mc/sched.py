"""Control of uuid4-driven hash order (DESIGN 5): the schedule pi.

uuid4 is replaced in the three modules that create Events/Nodes/case ids by a
counter; Event.__hash__ / Node.__hash__ return rank[uid] where rank is the
chosen permutation of creation indices.  No repo change."""

_cur = None
_installed = False


class Sched:
    def __init__(self, spec):
        self.n = 0
        self.spec = spec
        self.rank = {}

    def perm(self, i):
        s = self.spec
        if s is None or s == "id":
            return i
        if s == "rev":
            return 1_000_000 - i
        if s[0] == "swap":
            a, b = s[1], s[2]
            return b if i == a else a if i == b else i
        if s[0] == "mul":
            return (i * s[1]) % s[2]
        raise ValueError(s)

    def uuid4(self):
        i = self.n
        self.n += 1
        u = f"u{i:07d}"
        self.rank[u] = self.perm(i)
        return u


def install(spec):
    """(re)start the schedule; spec None restores nothing but resets counter"""
    global _cur, _installed
    import tel2puml.events as ev
    import tel2puml.logic_detection as ld
    import tel2puml.pv_to_puml.walk_puml_graph.node as nd
    _cur = Sched(spec)
    ev.uuid4 = _cur.uuid4
    ld.uuid4 = _cur.uuid4
    nd.uuid4 = _cur.uuid4
    if not _installed:
        _installed = True

        def ev_hash(self):
            u = self._uid
            r = _cur.rank.get(u)
            return r if r is not None else hash(u)

        def nd_hash(self):
            u = self.uid
            r = _cur.rank.get(u)
            return r if r is not None else hash(u)
        ev.Event.__hash__ = ev_hash
        nd.Node.__hash__ = nd_hash
    return _cur
