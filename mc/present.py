"""Presentations of a job set as PV event streams (DESIGN 7.0)."""


def to_pv(job, jid, jobname="J", order="creation", prefix=None, t0=0):
    """one job -> list of PVEvent dicts.  order: creation | reversed | rotated
    or an explicit list of node ids."""
    prefix = jid if prefix is None else prefix
    evs = []
    for i, t, ps in job:
        sec = t0 + i
        ts = "2024-01-01T%02d:%02d:%02d.000000Z" % (
            (sec // 3600) % 24, (sec // 60) % 60, sec % 60)
        evs.append(dict(jobId=jid, jobName=jobname, eventType=t,
                        eventId=f"{prefix}-{i}", timestamp=ts,
                        applicationName="app",
                        previousEventIds=[f"{prefix}-{p}" for p in ps]))
    if order == "creation":
        pass
    elif order == "reversed":
        evs = evs[::-1]
    elif order == "rotated":
        evs = evs[1:] + evs[:1]
    else:
        evs = [evs[i] for i in order]
    return evs


def present(jobs, spec=None):
    """spec keys: jobs: canonical|reversed|rotated|[perm];
    events: creation|reversed|rotated; rename: bool; shift: seconds;
    dup: index of a job supplied twice (fresh ids) or None;
    first_job_events: explicit event order for the first presented job"""
    spec = spec or {}
    n = len(jobs)
    if spec.get("bulk"):
        # bulk: [N, rare, pos] - a stream of N jobs in which job `rare`
        # occurs exactly once, at position pos; the other positions cycle
        # through the remaining jobs (each copy with fresh ids)
        total, rare, pos = spec["bulk"]
        others = [i for i in range(n) if i != rare] or [rare]
        out = []
        for k in range(total):
            ji = rare if k == pos else others[k % len(others)]
            out.append(to_pv(jobs[ji], f"b{k}", t0=k % 3600))
        return out
    jo = spec.get("jobs", "canonical")
    if jo == "canonical":
        order = list(range(n))
    elif jo == "reversed":
        order = list(range(n))[::-1]
    elif jo == "rotated":
        order = list(range(1, n)) + [0] if n else []
    else:
        order = list(jo)
    eo = spec.get("events", "creation")
    ren = spec.get("rename", False)
    shift = spec.get("shift", 0)
    out = []
    for pos, ji in enumerate(order):
        jid = f"job{ji}" if not ren else f"zz-{(ji * 7919) % 1000003:x}-q"
        prefix = jid if not ren else f"e{(ji * 104729) % 1000003:x}"
        o = eo
        if pos == 0 and spec.get("first_job_events") is not None:
            o = spec["first_job_events"]
        out.append(to_pv(jobs[ji], jid, order=o, prefix=prefix, t0=shift))
    dup = spec.get("dup")
    if dup is not None:
        out.append(to_pv(jobs[dup], f"dup{dup}", order=eo, t0=shift))
    return out
