"""Presentations of a job set as PV event streams (DESIGN 7.0)."""


from datetime import datetime, timedelta

_T0 = datetime(2024, 1, 1)


def ones(k):
    return "1" * (k + 1)


# wave 14: identifier schemes a renaming may legitimately choose.  Event ids
# only have to be unique within their job.
#   ones    job ids 1, 11, 111 ... and event ids 1, 11, 111 ... (one id a
#           prefix of the other; job id + event id of different pairs spell
#           the same text)
#   shared  every job uses the same event ids e0, e1, ...
#   numeric ids whose text order differs from their numeric order
#   case    ids that differ in letter case only
ID_SCHEMES = {
    "ones": (lambda ji: ones(ji), lambda ji, i: ones(i)),
    "shared": (lambda ji: f"J{ji}", lambda ji, i: f"e{i}"),
    "numeric": (lambda ji: str(8 + ji), lambda ji, i: str(98 + ji * 3 + i)),
    "case": (lambda ji: "job" + format(ji, "b").replace("0", "a")
             .replace("1", "A"),
             lambda ji, i: "ev" + format(i, "b").replace("0", "x")
             .replace("1", "X")),
}


def to_pv(job, jid, jobname="J", order="creation", prefix=None, t0=0,
          eid=None):
    """one job -> list of PVEvent dicts.  order: creation | reversed | rotated
    or an explicit list of node ids."""
    prefix = jid if prefix is None else prefix
    evs = []
    for i, t, ps in job:
        sec = t0 + i
        # a real calendar: shifts carry into the day, month and year
        ts = (_T0 + timedelta(seconds=sec)).strftime(
            "%Y-%m-%dT%H:%M:%S.000000Z")
        evs.append(dict(jobId=jid, jobName=jobname, eventType=t,
                        eventId=eid(i) if eid else f"{prefix}-{i}",
                        timestamp=ts, applicationName="app",
                        previousEventIds=[eid(p) if eid else f"{prefix}-{p}"
                                          for p in ps]))
    if order == "creation":
        pass
    elif order == "reversed":
        evs = evs[::-1]
    elif order == "rotated":
        evs = evs[1:] + evs[:1]
    else:
        evs = [evs[i] for i in order]
    return evs


def present(jobs, spec=None):
    """spec keys: jobs: canonical|reversed|rotated|[perm];
    events: creation|reversed|rotated; rename: bool; shift: seconds;
    dup: index of a job supplied twice (fresh ids) or None;
    first_job_events: explicit event order for the first presented job"""
    spec = spec or {}
    n = len(jobs)
    if spec.get("bulk"):
        # bulk: [N, rare, pos] - a stream of N jobs in which job `rare`
        # occurs exactly once, at position pos; the other positions cycle
        # through the remaining jobs (each copy with fresh ids)
        total, rare, pos = spec["bulk"]
        others = [i for i in range(n) if i != rare] or [rare]
        out = []
        for k in range(total):
            ji = rare if k == pos else others[k % len(others)]
            out.append(to_pv(jobs[ji], f"b{k}", t0=k % 3600))
        return out
    jo = spec.get("jobs", "canonical")
    if jo == "canonical":
        order = list(range(n))
    elif jo == "reversed":
        order = list(range(n))[::-1]
    elif jo == "rotated":
        order = list(range(1, n)) + [0] if n else []
    else:
        order = list(jo)
    eo = spec.get("events", "creation")
    ren = spec.get("rename", False)
    shift = spec.get("shift", 0)
    out = []
    for pos, ji in enumerate(order):
        jid = f"job{ji}" if not ren else f"zz-{(ji * 7919) % 1000003:x}-q"
        prefix = jid if not ren else f"e{(ji * 104729) % 1000003:x}"
        eid = None
        if isinstance(ren, str):
            jf, ef = ID_SCHEMES[ren]
            jid = jf(ji)
            eid = (lambda i, ji=ji, ef=ef: ef(ji, i))
        o = eo
        if pos == 0 and spec.get("first_job_events") is not None:
            o = spec["first_job_events"]
        out.append(to_pv(jobs[ji], jid, order=o, prefix=prefix, t0=shift,
                         eid=eid))
    dup = spec.get("dup")
    if dup is not None:
        out.append(to_pv(jobs[dup], f"dup{dup}", order=eo, t0=shift))
    return out
