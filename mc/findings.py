"""known_findings.json matcher.  The file is read-only at run time."""
import hashlib
import json
import os

VERIF = os.path.dirname(os.path.dirname(os.path.abspath(__file__)))
PATH = os.path.join(VERIF, "known_findings.json")


def input_key(obj):
    return hashlib.sha1(json.dumps(obj, sort_keys=True, default=str)
                        .encode()).hexdigest()


def load():
    if not os.path.exists(PATH):
        return {"findings": [], "fixed": []}
    with open(PATH) as f:
        return json.load(f)


def classify(prop, violations):
    """violations: list of dicts with 'key' (canonical input hash).
    returns (unknown violations, {finding id: [matched violations]})"""
    kf = load()
    index = {}
    for f in kf.get("findings", []):
        if f.get("status", "open") != "open":
            continue
        if prop not in f.get("properties", [f.get("property")]):
            continue
        for k in f.get("inputs", []):
            index[k] = f
    unknown, matched = [], {}
    for v in violations:
        f = index.get(v["key"])
        if f is None:
            unknown.append(v)
        else:
            matched.setdefault(f["id"], (f, []))[1].append(v)
    return unknown, matched
