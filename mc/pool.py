"""Worker pool: spawned interpreters (fresh PYTHONHASHSEED per seed group),
per-task watchdog, crash detection.  Handler exceptions are harness errors."""
import importlib
import multiprocessing as mp
import os
import queue
import signal
import sys
import time
import traceback

NCPU = int(os.environ.get("VERIF_WORKERS", "0")) or min(16, os.cpu_count() or 4)


class TaskTimeout(BaseException):
    pass


def _alarm(signum, frame):
    raise TaskTimeout()


def worker_setup():
    import warnings
    warnings.filterwarnings("ignore")
    sys.setrecursionlimit(200000)
    os.environ["TQDM_DISABLE"] = "1"
    import logging
    logging.disable(logging.CRITICAL)


def _worker(handler_path, taskq, resq, wid, timeout, quiet):
    worker_setup()
    if quiet:
        devnull = os.open(os.devnull, os.O_WRONLY)
        os.dup2(devnull, 1)
        os.dup2(devnull, 2)
    def body():
        try:
            mod, fn = handler_path.split(":")
            handler = getattr(importlib.import_module(mod), fn)
        except BaseException:
            resq.put(("fatal", wid, traceback.format_exc()))
            return
        signal.signal(signal.SIGALRM, _alarm)
        parent = os.getppid()
        while True:
            # a worker whose run was killed must not go on computing
            if os.getppid() != parent:
                os._exit(3)
            try:
                item = taskq.get(timeout=30)
            except Exception:
                continue
            if item is None:
                break
            idx, task = item
            resq.put(("start", wid, idx))
            try:
                signal.setitimer(signal.ITIMER_REAL, timeout)
                try:
                    res = handler(task)
                finally:
                    signal.setitimer(signal.ITIMER_REAL, 0)
            except TaskTimeout:
                res = {"_error": "timeout"}
            except BaseException:
                res = {"_error": "exception",
                       "trace": traceback.format_exc()[-4000:]}
            resq.put(("done", wid, idx, res))
        resq.put(("exit", wid))
    # run in a thread with a big stack (deep CPS recursion in the semantics);
    # signals are delivered to the main thread, so keep the handler loop in
    # the main thread when possible.  Python-level recursion in 3.12 does not
    # consume C stack for pure-Python frames, so the main thread is fine.
    body()


class HarnessError(Exception):
    pass


def run_tasks(handler_path, tasks, timeout=120.0, seed_of=None, nworkers=None,
              progress=None, quiet=True):
    """run every task; returns list of results aligned with tasks.
    seed_of(task) -> PYTHONHASHSEED for the worker that runs it."""
    if not tasks:
        return []
    nworkers = nworkers or NCPU
    seed_of = seed_of or (lambda t: 0)
    ctx = mp.get_context("spawn")
    groups = {}
    for i, t in enumerate(tasks):
        groups.setdefault(seed_of(t), []).append(i)
    results = [None] * len(tasks)
    seeds = sorted(groups)
    # waves of at most nworkers seed groups
    for w0 in range(0, len(seeds), nworkers):
        wave = seeds[w0:w0 + nworkers]
        total = sum(len(groups[s]) for s in wave)
        alloc = {}
        left = nworkers
        for s in wave:
            alloc[s] = max(1, min(len(groups[s]),
                                  int(nworkers * len(groups[s]) / total)))
        # distribute the remainder to largest groups
        while sum(alloc.values()) < min(nworkers, total):
            s = max(wave, key=lambda s: len(groups[s]) / alloc[s])
            if alloc[s] >= len(groups[s]):
                break
            alloc[s] += 1
        while sum(alloc.values()) > nworkers and any(v > 1 for v in alloc.values()):
            s = max(wave, key=lambda s: alloc[s])
            alloc[s] -= 1
        _run_wave(ctx, handler_path, tasks, groups, wave, alloc, results,
                  timeout, progress, quiet)
    return results


def _run_wave(ctx, handler_path, tasks, groups, wave, alloc, results, timeout,
              progress, quiet):
    resq = ctx.Queue()
    taskqs = {}
    workers = {}   # wid -> (proc, seed)
    inflight = {}  # wid -> (idx, t0)
    wid_counter = [0]
    remaining = {s: len(groups[s]) for s in wave}
    retried = set()

    def spawn(seed):
        wid = wid_counter[0]
        wid_counter[0] += 1
        old = os.environ.get("PYTHONHASHSEED")
        os.environ["PYTHONHASHSEED"] = str(seed)
        try:
            p = ctx.Process(target=_worker, args=(
                handler_path, taskqs[seed], resq, wid, timeout, quiet),
                daemon=True)
            p.start()
        finally:
            if old is None:
                os.environ.pop("PYTHONHASHSEED", None)
            else:
                os.environ["PYTHONHASHSEED"] = old
        workers[wid] = (p, seed)

    for s in wave:
        q = ctx.Queue()
        taskqs[s] = q
        for i in groups[s]:
            q.put((i, tasks[i]))
        for _ in range(alloc[s]):
            q.put(None)
    for s in wave:
        for _ in range(alloc[s]):
            spawn(s)
    ndone = 0
    ntotal = sum(remaining.values())
    last_progress = time.time()
    try:
        while ndone < ntotal:
            try:
                msg = resq.get(timeout=1.0)
            except queue.Empty:
                msg = None
            now = time.time()
            if msg is not None:
                kind = msg[0]
                if kind == "start":
                    inflight[msg[1]] = (msg[2], now)
                elif kind == "done":
                    _, wid, idx, res = msg
                    inflight.pop(wid, None)
                    if results[idx] is None:
                        results[idx] = res
                        ndone += 1
                        remaining[workers[wid][1]] -= 1
                elif kind == "fatal":
                    raise HarnessError("worker failed to start:\n" + msg[2])
                elif kind == "exit":
                    # a worker ran out of tasks for its seed group: give its
                    # slot to the group with the most work left per worker
                    wid = msg[1]
                    if wid in workers:
                        del workers[wid]
                    alive = {}
                    for pr, sd in workers.values():
                        alive[sd] = alive.get(sd, 0) + 1
                    best, ratio = None, 1.0
                    for sd in wave:
                        a = alive.get(sd, 0)
                        if remaining[sd] > a:
                            r = remaining[sd] / max(a, 0.5)
                            if r > ratio:
                                best, ratio = sd, r
                    if best is not None:
                        taskqs[best].put(None)
                        spawn(best)
            # liveness
            for wid, (p, seed) in list(workers.items()):
                if wid in inflight:
                    idx, t0 = inflight[wid]
                    dead = not p.is_alive()
                    hung = now - t0 > 2 * timeout + 30
                    if dead or hung:
                        if hung:
                            p.kill()
                        p.join(1)
                        # drain possible late message first
                        if results[idx] is None:
                            results[idx] = {"_error": "timeout" if hung
                                            else "crash",
                                            "exitcode": p.exitcode}
                            ndone += 1
                            remaining[seed] -= 1
                        inflight.pop(wid, None)
                        del workers[wid]
                        if remaining[seed] > 0:
                            taskqs[seed].put(None)
                            spawn(seed)
                elif not p.is_alive() and remaining[seed] > 0:
                    # died between tasks (or after its sentinel); make sure
                    # somebody is still serving this seed group
                    del workers[wid]
                    if not any(sd == seed and pr.is_alive()
                               for pr, sd in workers.values()):
                        taskqs[seed].put(None)
                        spawn(seed)
            if progress and now - last_progress > 15:
                last_progress = now
                progress(ndone, ntotal)
    finally:
        for wid, (p, seed) in workers.items():
            if p.is_alive():
                p.join(0.5)
            if p.is_alive():
                p.kill()
        for q in list(taskqs.values()) + [resq]:
            q.close()
            q.cancel_join_thread()
