"""Adapters around the real otel2pv components."""
import os


def imports():
    from tel2puml.otel_to_pv.data_holders.sql_data_holder.sql_dataholder \
        import SQLDataHolder
    from tel2puml.otel_to_pv.config import SQLDataHolderConfig
    from tel2puml.otel_to_pv.otel_to_pv_types import OTelEvent
    return SQLDataHolder, SQLDataHolderConfig, OTelEvent


def reset_metadata():
    """a second find_unique_graphs in one process needs the temp table object
    removed from the module-level metadata (not a property: C15 is about
    separate processes)"""
    from tel2puml.otel_to_pv.data_holders.sql_data_holder.data_model import \
        Base
    t = Base.metadata.tables.get('temp_root_nodes')
    if t is not None:
        Base.metadata.remove(t)


def new_holder(db_uri="sqlite:///:memory:", batch_size=5, time_buffer=0):
    SQLDataHolder, SQLDataHolderConfig, _ = imports()
    reset_metadata()
    return SQLDataHolder(SQLDataHolderConfig(
        db_uri=db_uri, batch_size=batch_size, time_buffer=time_buffer))


def ingest(holder, spans):
    """the real ingestion path: IngestData.load_to_data_holder"""
    from tel2puml.otel_to_pv.ingest_otel_data import IngestData
    _, _, OTelEvent = imports()
    IngestData([OTelEvent(**s) for s in spans], holder).load_to_data_holder()


def dump_nodes(holder):
    import sqlalchemy as sa
    with holder.engine.connect() as con:
        nodes = sorted(tuple(r) for r in con.execute(sa.text(
            "select event_id,event_type,job_name,job_id,start_timestamp,"
            "end_timestamp,application_name,parent_event_id from nodes")))
        assoc = sorted(tuple(r) for r in con.execute(sa.text(
            "select parent_id,child_id from NODE_ASSOCIATION")))
    return nodes, assoc


def scratch_dir():
    import tempfile
    base = os.environ.get("VERIF_SCRATCH")
    if not base or not os.path.isdir(base):
        base = "/dev/shm" if os.path.isdir("/dev/shm") else None
    return tempfile.mkdtemp(prefix="verif_", dir=base)
