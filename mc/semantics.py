"""Token-game semantics of block-structured job definitions.

A job is a list of (id, type, preds) with ids 0..n-1 in creation (topological)
order and preds a sorted tuple of ids.

executions(D, k)  explicit-state DFS over the token game: every job of D with
                  each loop body run 1..k times per entry.
accepts(D, job)   product exploration of D's token game with a concrete job:
                  complete backtracking search, loops unbounded (each
                  iteration must consume a job node).
Counters (states, transitions) are accumulated in the Stats object passed in.
"""
import itertools

S = -1  # sentinel predecessor "job start"


class Stats:
    __slots__ = ("states", "transitions")

    def __init__(self):
        self.states = 0
        self.transitions = 0

    def add(self, other):
        self.states += other.states
        self.transitions += other.transitions


class TooMany(Exception):
    pass


def _norm(ids):
    return tuple(sorted(set(ids)))


def executions(defn, k, stats=None, cap=None):
    """all jobs of defn with each loop run 1..k times (per entry)"""
    stats = stats if stats is not None else Stats()
    out = []

    def ex_seq(seq, i, ins, evs, brk, cont):
        stats.states += 1
        if i == len(seq) or not ins:
            cont(ins, evs, brk)
            return
        ex_item(seq[i], ins, evs, brk,
                lambda o, e, b: ex_seq(seq, i + 1, o, e, b, cont))

    def ex_item(it, ins, evs, brk, cont):
        t = it[0]
        if t == 'ev':
            stats.transitions += 1
            nid = len(evs)
            cont((nid,), evs + ((nid, it[1], ins),), brk)
        elif t == 'detach':
            cont((), evs, brk)
        elif t == 'break':
            cont((), evs, _norm(brk + ins))
        elif t == 'xor':
            for br in it[1]:
                ex_seq(br, 0, ins, evs, brk, cont)
        elif t in ('and', 'or'):
            brs = it[1]
            n = len(brs)
            if t == 'and':
                subsets = [tuple(range(n))]
            else:
                subsets = [s for r in range(1, n + 1)
                           for s in itertools.combinations(range(n), r)]
            for sub in subsets:
                def chain(j, outs, evs, brk, sub=sub):
                    if j == len(sub):
                        cont(_norm(outs), evs, brk)
                        return
                    ex_seq(brs[sub[j]], 0, ins, evs, brk,
                           lambda o, e, b: chain(j + 1, outs + o, e, b))
                chain(0, (), evs, brk)
        elif t == 'loop':
            def iterate(n, ins, evs, outer_brk):
                def after(o, e, b):
                    if o or b:
                        cont(_norm(o + b), e, outer_brk)
                    if o and n < k and not b:
                        iterate(n + 1, o, e, outer_brk)
                ex_seq(it[1], 0, ins, evs, (), after)
            iterate(1, ins, evs, brk)
        else:
            raise ValueError(t)

    def done(o, e, b):
        out.append(e)
        if cap is not None and len(out) > cap:
            raise TooMany()
    ex_seq(defn, 0, (S,), (), (), done)
    jobs = []
    for e in out:
        jobs.append([(i, t, tuple(p for p in ps if p != S))
                     for i, t, ps in e])
    return jobs


class _Found(Exception):
    pass


def accepts(defn, job, stats=None, budget=2_000_000):
    """is `job` an execution of defn (loops unbounded)?  Complete search."""
    stats = stats if stats is not None else Stats()
    n = len(job)
    by_key = {}
    for i, t, ps in job:
        by_key.setdefault((t, tuple(sorted(ps))), []).append(i)
    steps = [0]

    def ex_seq(seq, i, ins, used, brk, cont):
        stats.states += 1
        steps[0] += 1
        if steps[0] > budget:
            raise TooMany()
        if i == len(seq) or not ins:
            cont(ins, used, brk)
            return
        ex_item(seq[i], ins, used, brk,
                lambda o, u, b: ex_seq(seq, i + 1, o, u, b, cont))

    def ex_item(it, ins, used, brk, cont):
        t = it[0]
        if t == 'ev':
            key = (it[1], tuple(p for p in ins if p != S))
            for cand in by_key.get(key, ()):
                if cand not in used:
                    stats.transitions += 1
                    cont((cand,), used | {cand}, brk)
        elif t == 'detach':
            cont((), used, brk)
        elif t == 'break':
            cont((), used, _norm(brk + ins))
        elif t == 'xor':
            for br in it[1]:
                ex_seq(br, 0, ins, used, brk, cont)
        elif t in ('and', 'or'):
            brs = it[1]
            m = len(brs)
            if t == 'and':
                subsets = [tuple(range(m))]
            else:
                subsets = [s for r in range(1, m + 1)
                           for s in itertools.combinations(range(m), r)]
            for sub in subsets:
                def chain(j, outs, used, brk, sub=sub):
                    if j == len(sub):
                        cont(_norm(outs), used, brk)
                        return
                    ex_seq(brs[sub[j]], 0, ins, used, brk,
                           lambda o, u, b: chain(j + 1, outs + o, u, b))
                chain(0, (), used, brk)
        elif t == 'loop':
            def iterate(ins, used, outer_brk):
                size = len(used)

                def after(o, u, b):
                    if o or b:
                        cont(_norm(o + b), u, outer_brk)
                    if o and not b and len(u) > size:
                        iterate(o, u, outer_brk)
                ex_seq(it[1], 0, ins, used, (), after)
            iterate(ins, used, brk)
        else:
            raise ValueError(t)

    def done(o, used, b):
        if len(used) == n:
            raise _Found()
    try:
        ex_seq(defn, 0, (S,), frozenset(), (), done)
    except _Found:
        return True
    return False


# --------------------------------------------------------------------------
# canonical form of a job (isomorphism invariant; colour refinement both ways)
# --------------------------------------------------------------------------
def canon(job):
    d = {i: (t, ps) for i, t, ps in job}
    succ = {i: [] for i in d}
    for i, (t, ps) in d.items():
        for p in ps:
            succ[p].append(i)
    up = {}

    def h_up(i):
        if i not in up:
            t, ps = d[i]
            up[i] = (t, tuple(sorted(h_up(p) for p in ps)))
        return up[i]
    down = {}

    def h_down(i):
        if i not in down:
            down[i] = (d[i][0], tuple(sorted(h_down(s) for s in succ[i])))
        return down[i]
    return tuple(sorted((h_up(i), h_down(i)) for i in d))


def canon_key(job):
    import hashlib
    return hashlib.sha1(repr(canon(job)).encode()).hexdigest()


def dedupe(jobs):
    seen = {}
    for j in jobs:
        seen.setdefault(canon(j), j)
    return list(seen.values())


def language(defn, k, stats=None, cap=None):
    """frozenset of canonical jobs of defn with loops bounded by k"""
    return frozenset(canon(j) for j in executions(defn, k, stats, cap))


def model_of_jobs(jobs):
    """reference model: per event type the set of successor / predecessor
    multisets (as sorted tuples of (type, count)), computed directly from
    the job DAGs.  Mirrors what ingestion should learn."""
    outs, ins = {}, {}
    for job in jobs:
        d = {i: (t, ps) for i, t, ps in job}
        succ = {i: [] for i in d}
        for i, (t, ps) in d.items():
            for p in ps:
                succ[p].append(i)
        for i, (t, ps) in d.items():
            o = _ms(d[s][0] for s in succ[i])
            p = _ms(d[q][0] for q in ps)
            outs.setdefault(t, set())
            ins.setdefault(t, set())
            if o:
                outs[t].add(o)
            if p:
                ins[t].add(p)
    return {t: (frozenset(outs[t]), frozenset(ins[t])) for t in outs}


def _ms(types):
    c = {}
    for t in types:
        c[t] = c.get(t, 0) + 1
    return tuple(sorted(c.items()))
