#!/bin/bash
# tools/mutant.sh <mutant dir with repo/ patch.diff demo.py> <check id>...
# Confirms a seeded change in a scratch worktree (never in /repo): the worktree
# is reset to its HEAD and patch.diff applied afresh; the pinned suite must
# still pass, the demo must fail with and pass without the change; then the
# given checks run against the changed worktree (VERIF_REPO) with evidence and
# replays redirected away from /verif.
set -u
d="$(cd "$1" && pwd)"; shift
here="$(cd "$(dirname "${BASH_SOURCE[0]}")/.." && pwd)"
wt="$d/repo"
out="$d/verif_out"; rm -rf "$out"; mkdir -p "$out/evidence" "$out/replays"
git -C "$wt" checkout -q -- . && git -C "$wt" clean -fdq -e __pycache__ >/dev/null
# scratch worktrees follow /repo's HEAD (fix: commits made since the agent started)
git -C "$wt" checkout -q --detach "$(git -C /repo rev-parse HEAD)"
echo "== demo without change"
(cd /tmp && /venv/bin/python "$d/demo.py" "$wt" >"$out/demo_without.txt" 2>&1; echo "exit=$?")
git -C "$wt" apply "$d/patch.diff" || { echo "PATCH DOES NOT APPLY"; exit 3; }
echo "== suite with change"
(cd "$wt" && /venv/bin/python -m pytest -q -p no:cacheprovider --timeout=900 --continue-on-collection-errors 2>&1 | grep -E "passed|failed" | tail -1)
echo "== demo with change"
(cd /tmp && /venv/bin/python "$d/demo.py" "$wt" >"$out/demo_with.txt" 2>&1; echo "exit=$?"; tail -2 "$out/demo_with.txt" | cut -c1-200)
for id in "$@"; do
  echo "== check $id against changed tree"
  VERIF_REPO="$wt" VERIF_EVIDENCE_DIR="$out/evidence" VERIF_REPLAY_DIR="$out/replays" \
     "$here/run_check" "$id" --tier "${TIER:-quick}" 2>/dev/null | grep -E "VIOLATION|KNOWN-FINDING|HARNESS|^\[" | cut -c1-260 | head -${SHOW:-4}
  echo "exit=${PIPESTATUS[0]}"
done
