#!/bin/bash
# tools/mutant.sh <mutant dir with repo/ patch.diff demo.py> <check id>...
# Confirms a seeded change: pinned suite still passes, demo fails with / passes
# without the change, and runs the given quick checks against the changed
# worktree (VERIF_REPO) without touching /repo, /verif/evidence or /verif/replays.
set -u
d="$(cd "$1" && pwd)"; shift
here="$(cd "$(dirname "${BASH_SOURCE[0]}")/.." && pwd)"
wt="$d/repo"
out="$d/verif_out"; rm -rf "$out"; mkdir -p "$out/evidence" "$out/replays"
echo "== suite with change"
(cd "$wt" && /venv/bin/python -m pytest -q -p no:cacheprovider --timeout=900 --continue-on-collection-errors 2>&1 | tail -1)
echo "== demo with change"
(cd /tmp && /venv/bin/python "$d/demo.py" "$wt" >"$out/demo_with.txt" 2>&1; echo "exit=$?"; tail -3 "$out/demo_with.txt")
git -C "$wt" stash -q
echo "== demo without change"
(cd /tmp && /venv/bin/python "$d/demo.py" "$wt" >"$out/demo_without.txt" 2>&1; echo "exit=$?")
git -C "$wt" stash pop -q
for id in "$@"; do
  echo "== check $id against changed tree"
  VERIF_REPO="$wt" VERIF_EVIDENCE_DIR="$out/evidence" VERIF_REPLAY_DIR="$out/replays" \
     "$here/run_check" "$id" --tier "${TIER:-quick}" 2>/dev/null | grep -E "VIOLATION|KNOWN-FINDING|HARNESS|^\[" | cut -c1-260 | head -8
  echo "exit=${PIPESTATUS[0]}"
done
