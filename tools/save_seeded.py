#!/venv/bin/python
"""tools/save_seeded.py <mutant dir> <seeded id> <property> <caught_by csv|-> [note]
copies patch.diff + demo.py into seeded/<id>/ and writes meta.json"""
import json
import os
import shutil
import sys

src, sid, prop, caught = sys.argv[1:5]
note = sys.argv[5] if len(sys.argv) > 5 else ""
here = os.path.dirname(os.path.dirname(os.path.abspath(__file__)))
dst = os.path.join(here, "seeded", sid)
os.makedirs(dst, exist_ok=True)
shutil.copy(os.path.join(src, "patch.diff"), os.path.join(dst, "patch.diff"))
shutil.copy(os.path.join(src, "demo.py"), os.path.join(dst, "demo.py"))
meta_txt = open(os.path.join(src, "meta.txt")).read() \
    if os.path.exists(os.path.join(src, "meta.txt")) else ""
out = os.path.join(src, "verif_out")
def rd(n):
    p = os.path.join(out, n)
    return open(p).read()[-600:] if os.path.exists(p) else None
meta = {
    "id": sid, "breaks_property": prop,
    "origin": "independent sub-agent given only the property text and a "
              "scratch worktree (nothing from /verif)",
    "description": meta_txt.strip(),
    "confirmed": {
        "how": "tools/mutant.sh: scratch worktree reset to HEAD, patch.diff "
               "applied; pinned suite run there (120 passed, 2 failed, 13 "
               "errors = baseline); demo.py run with and without the change; "
               "quick checks run with VERIF_REPO=<worktree>",
        "suite_with_change": "120 passed (baseline unchanged)",
        "demo_with_change_tail": rd("demo_with.txt"),
        "demo_without_change": "exit 0",
    },
    "caught_by": [] if caught == "-" else caught.split(","),
    "note": note,
}
json.dump(meta, open(os.path.join(dst, "meta.json"), "w"), indent=1)
print("saved", dst)
