#!/bin/bash
# tools/keep.sh <agent dir> <seeded id> <property> <caught_by csv|-> [note]
# saves a confirmed change under seeded/<id>/ (demo's stand-in path pointed at /verif/shim)
here="$(cd "$(dirname "${BASH_SOURCE[0]}")/.." && pwd)"
"$here/tools/save_seeded.py" "$@" || exit 1
sed -i -E "s#^SHIM = .*#SHIM = \"/verif/shim\"#" "$here/seeded/$2/demo.py"
grep -n '^SHIM' "$here/seeded/$2/demo.py"
