#!/bin/bash
# tools/rerun_seeded.sh [id-prefix]   - regression of the checks themselves:
# every seeded change is applied to a fresh scratch clone of /repo (under
# /tmp, removed afterwards) and the check(s) named in its meta.json must
# still report a violation (exit 1) that is not a known finding.
here="$(cd "$(dirname "${BASH_SOURCE[0]}")/.." && pwd)"
work="$(mktemp -d /tmp/seeded_rerun.XXXXXX)"
trap 'rm -rf "$work"' EXIT
fail=0; n=0
for d in "$here"/seeded/${1:-}*/; do
  id="$(basename "$d")"
  if grep -q '"obsolete_since"' "$d/meta.json"; then echo "$id: skipped (no longer breaks its property on the current tree, see meta.json)"; continue; fi
  checks=$(python3 -c "import json,sys; print(' '.join(sorted({c.split()[0] for c in json.load(open(sys.argv[1]))['caught_by']})))" "$d/meta.json")
  rm -rf "$work/repo"; git clone -q /repo "$work/repo" || exit 3
  if ! git -C "$work/repo" apply "$d/patch.diff" 2>/dev/null; then echo "$id: PATCH DOES NOT APPLY"; fail=1; continue; fi
  ok=0
  for c in $checks; do
    VERIF_REPO="$work/repo" VERIF_EVIDENCE_DIR="$work/ev" VERIF_REPLAY_DIR="$work/rp" \
      "$here/run_check" "$c" --tier quick >"$work/out.txt" 2>/dev/null
    rc=$?
    if [ $rc -eq 1 ] && grep -q "^VIOLATION property=$c" "$work/out.txt"; then ok=1; echo "$id: caught by $c"; break; fi
    if [ $rc -eq 2 ]; then echo "$id: $c HARNESS ERROR"; fi
  done
  n=$((n+1))
  if [ $ok -eq 0 ]; then echo "$id: NOT CAUGHT by [$checks]"; fail=1; fi
done
echo "seeded changes re-run: $n, all caught: $([ $fail -eq 0 ] && echo yes || echo NO)"
exit $fail
