#!/venv/bin/python
"""Maintenance tool (never run by a check): classify the violations dumped by
thorough sweeps (VERIF_DUMP=<file> ./run_check <ID> --tier thorough) by root
cause and write known_findings.json.  Anything it cannot classify is printed
and NOT listed - it has to be triaged by hand.

usage: tools/gen_known_findings.py C01=<dump> C02=<dump> C05=<dump> C07=<dump>
"""
import json
import os
import sys

sys.path.insert(0, os.path.dirname(os.path.dirname(os.path.abspath(__file__))))
from mc import dsl  # noqa: E402

FINDINGS = {
    "KF-MULTI-BREAK": {
        "root_cause": "break-event handling (calc_components_of_loop / "
        "update_nested_sub_graphs_for_dummy_break_event_nodes): the trailing "
        "events of a multi-event break branch are placed after the loop; when "
        "nothing else distinguishes the normal exit they become mandatory "
        "after the loop or lose their link to the break",
        "what_fails": "loop whose body has an XOR break branch of two or more "
        "events: the emitted diagram rejects the jobs that leave the loop "
        "normally (C01) and admits jobs with the trailing break events after "
        "a normal exit (C02)",
        "examples": ["A loop[B xor[C D break|E]]"]},
    "KF-NESTED-BREAK": {
        "root_cause": "loop extraction of nested loops "
        "(detect_loops / create_sub_graph_of_loop): a break inside an inner "
        "loop is resolved against the enclosing loop, bodies are duplicated "
        "and the break event is moved behind the outer loop",
        "what_fails": "nested loop whose inner loop body contains a break "
        "branch: the emitted diagram duplicates loop bodies, rejects evidence "
        "jobs (C01), admits jobs without the break event (C02) and in two "
        "shapes emits a fork with a single branch (C05)",
        "examples": ["A loop[B loop[C xor[D break|E]]]"]},
    "KF-PARTIAL-EVIDENCE": {
        "root_cause": "merge validation and gate inference on incomplete "
        "evidence (_check_merge_is_correct / calculate_logic_gates): with "
        "only some executions of an OR fork (or one long job of a loop) the "
        "predecessor sets of the merge event cannot be matched to the "
        "inferred gate, the merge is not confirmed and the following event "
        "is copied into every branch followed by detach; one single-job "
        "sample raises 'Event sets incoming is not set'",
        "what_fails": "learning from a proper subset of the executions of a "
        "definition (C01 quantifies over all finite job sets): the emitted "
        "diagram rejects jobs it was learned from, e.g. A or[B|C|D] E "
        "learned from the three two-branch executions only",
        "examples": ["A or[B|C|D] E  (jobs {B,C}, {B,D}, {C,D})",
                     "A loop[B or[C|D]] E  (single job B C B C+D E)"]},
    "KF-EXT-BREAK-FORK": {
        "root_cause": "break handling when the non-break alternative of the "
        "loop body's XOR is itself a fork (bunched logic): the XOR is emitted "
        "with the break case only and the fork is placed after it",
        "what_fails": "extended scope (bunched forks, outside fragment F): "
        "loop whose body XOR has a break branch and a branch that starts "
        "with a fork: 'switch' with one case (C05) and evidence rejected "
        "(C01)",
        "examples": ["A loop[B xor[C break|or[D|E]]]"]},
    "KF-CORPUS-KILL-MERGE": {
        "root_cause": "merge-point selection in the walk: a kill/detach "
        "branch inside a nested AND whose surviving branch merges on the "
        "parent fork (upstream marks this case xfail)",
        "what_fails": "corpus constraints/kill/kill_with_merge_on_parent.puml:"
        " emitted diagram is not language-equivalent to the source",
        "examples": ["A and[E and[B detach|C detach|D]|G] F"]},
    "KF-CORPUS-2BREAKS": {
        "root_cause": "break-event classification: a break event that is "
        "also the successor of another break event (upstream's expected "
        "'_equiv' diagram is itself not language-equivalent)",
        "what_fails": "corpus loops/break_points/loop_with_2_breaks_one_leads"
        "_to_other(.puml|_equiv.puml): evidence rejected / extra jobs "
        "admitted / break emitted outside a repeat / event F twice in the "
        "loop nesting",
        "examples": ["A loop[B xor[E F G break|F G break|C]]"]},
}


def has_direct_break(body):
    for it in body:
        if it[0] == 'xor' and any(b and b[-1] == ('break',) for b in it[1]):
            return True
    return False


def nested_break(seq, depth=0):
    """a loop at nesting depth >= 1 whose body directly holds a break"""
    for it in seq:
        if it[0] == 'loop':
            if depth >= 1 and has_direct_break(it[1]):
                return True
            if nested_break(it[1], depth + 1):
                return True
        elif it[0] in ('and', 'or', 'xor'):
            if any(nested_break(b, depth) for b in it[1]):
                return True
    return False


def multi_break(seq):
    for it in seq:
        if it[0] == 'loop':
            for x in it[1]:
                if x[0] == 'xor' and any(
                        b and b[-1] == ('break',) and len(b) >= 3
                        for b in x[1]):
                    return True
            if multi_break(it[1]):
                return True
        elif it[0] in ('and', 'or', 'xor'):
            if any(multi_break(b) for b in it[1]):
                return True
    return False


def classify(name, defn, inp=None, prop=None, observed=None):
    fid = classify_structure(name, defn)
    if fid is None and prop == "C04" and observed and \
            observed[0] == "chunked_run_fails" and \
            "Event sets incoming is not set" in str(observed):
        # the first chunk alone is incomplete evidence on which the learner
        # crashes (same defect as the single-job sample of C01)
        return "KF-PARTIAL-EVIDENCE"
    if fid is None and inp is not None:
        if inp.get("mode") == "c01sub" and name in ("F", "K", "FS", "FL", "FK", "FD", "FX", "FE", "FT", "FW"):
            return "KF-PARTIAL-EVIDENCE"
        if name == "FB" and _nbreaks_all(defn) >= 1:
            return "KF-EXT-BREAK-FORK"
    return fid


def _nbreaks_all(seq):
    n = 0
    for it in seq:
        if it[0] == 'break':
            n += 1
        elif it[0] == 'loop':
            n += _nbreaks_all(it[1])
        elif it[0] in ('and', 'or', 'xor'):
            n += sum(_nbreaks_all(b) for b in it[1])
    return n


def classify_structure(name, defn):
    if name and "kill_with_merge_on_parent" in name:
        return "KF-CORPUS-KILL-MERGE"
    if name and "loop_with_2_breaks_one_leads_to_other" in name:
        return "KF-CORPUS-2BREAKS"
    if name and name not in ("F", "F+", "K", "FB", "FS", "FL", "FK", "FD", "FX", "FE", "FT", "FW"):
        return None
    if nested_break(defn):
        return "KF-NESTED-BREAK"
    if multi_break(defn):
        return "KF-MULTI-BREAK"
    return None


def main():
    per = {k: {"properties": set(), "inputs": set()} for k in FINDINGS}
    unclassified = []
    for arg in sys.argv[1:]:
        prop, path = arg.split("=")
        for line in open(path):
            r = json.loads(line)
            inp = r["input"]
            defn = dsl.to_tuple(inp["defn"])
            fid = classify(inp.get("name"), defn, inp, prop,
                           r.get("observed"))
            if fid is None:
                unclassified.append((prop, r["what"][:200]))
                continue
            per[fid]["properties"].add(prop)
            per[fid]["inputs"].add(r["key"])
    here = os.path.dirname(os.path.dirname(os.path.abspath(__file__)))
    path = os.path.join(here, "known_findings.json")
    old = json.load(open(path))
    out = {"_comment": old.get("_comment"), "findings": [],
           "fixed": old.get("fixed", [])}
    for fid, meta in FINDINGS.items():
        if not per[fid]["inputs"]:
            continue
        out["findings"].append({
            "id": fid, "properties": sorted(per[fid]["properties"]),
            "status": "open", "root_cause": meta["root_cause"],
            "what_fails": meta["what_fails"], "examples": meta["examples"],
            "inputs": sorted(per[fid]["inputs"])})
    with open(path, "w") as f:
        json.dump(out, f, indent=1)
        f.write("\n")
    for fid in FINDINGS:
        print(fid, sorted(per[fid]["properties"]), len(per[fid]["inputs"]))
    print("unclassified:", len(unclassified))
    for u in unclassified[:30]:
        print("  ", u)


if __name__ == "__main__":
    main()
